/-
  C20 — Serialisation customisation is honoured at every depth.

  Model: JRV.Model.JsonClass (`dump`, `dumpBean`, `dumpFields`, `dumpTop`).  Everything is stated for every
  class environment, every configuration (names, handler table) and every interpretation `X.H` of the handler
  ids as *arbitrary* functions (raising ones included), every value tree and every ignore argument.

  "At any nesting depth" is a statement about *paths*: `walk X sm ia ig root p = some node` says that the
  node is reached from the root through positions into which `dump` recurses (item of a list / tuple / set /
  frozenset, value of a dict entry, field of an instance dumped field-wise that passes the filter) below
  ancestors none of which has a handler (a handled ancestor is replaced as a whole: its subtree is not
  visited; an object dumped through its own serialisation method is a leaf: what the method returns is emitted
  as it is, only filtered by attribute *name* against the ignore lists — `C20_method_form`).  `C20_same_arguments_everywhere` shows that such a node is dumped with the *same* serialize-method
  name, ignore-attribute name, ignore list and configuration as the root and that its dump is found verbatim at
  the same path of the output; the handler, ignore-list and configured-name theorems for one node then hold at
  every depth.
-/
import JRV.Model.JsonClass
import JRV.Model.ConfigCopy
import JRV.Model.ConfigHistory
import JRV.Lemmas.JsonClass

set_option linter.unusedSimpArgs false
set_option linter.unusedVariables false
set_option linter.unusedSectionVars false

namespace JRV.Props
open JRV JRV.PyVal JRV.JsonClass

/- ---------- positions ---------- -/

/-- One step down the value tree. -/
inductive Step where
  /-- the `i`-th item of a list, tuple, set or frozenset -/
  | item (i : Nat)
  /-- the value of the `i`-th entry of a dict -/
  | value (i : Nat)
  /-- the stored attribute `n` of an instance -/
  | field (n : String)
deriving Repr, DecidableEq

/-- Is an instance of this class dumped field-wise (the `else:` branch of `dump`) when the serialisation
    method is called `sm`?  Beans are; a class with a custom method is iff the method has another name. -/
def fieldWise (d : ClassDef) (sm : String) : Bool :=
  match d.kind with
  | .bean _ => true
  | .serial m _ _ _ _ => m != sm
  | _ => false

/-- Is an instance of this class serialised through its own method (the `if hasattr(obj, serialize_method):`
    branch of `dump`) when the serialisation method is called `sm`? -/
def viaMethod (d : ClassDef) (sm : String) : Bool :=
  match d.kind with
  | .serial m _ _ _ _ => m == sm
  | _ => false

/-- The constructor arguments a serialisation method returns: a list, or a keyword dict. -/
def serialParams (byDict : Bool) (ps : List String) (pvs : List PyVal) : PyVal :=
  if byDict then PyVal.dict ((ps.zip pvs).map fun (k, x) => (.str k, x)) else .list pvs

/-- `getattr(obj, ignore_attribute, []) + ignore` (`none`: the attribute is not a list). -/
def ignoreListOf (d : ClassDef) (fs : List (String × PyVal)) (ia : String) (ig : List PyVal) : Option (List PyVal) :=
  match getAttrD d fs ia (.list []) with
  | .list own => some (own ++ ig)
  | _ => Option.none

/-- The filter of the field loop, as the property words it: the name is a discovered field, is not named by
    the ignore list, the value is of a supported or handled type and is not `in` the ignore list. -/
def fieldKept (X : DumpCtx) (c : String) (fs : List (String × PyVal)) (il : List PyVal) (n : String) (x : PyVal) : Bool :=
  (findFields X.env c (fs.map (·.1))).contains n && !il.any (fun e => pyEq e (.str n)) &&
  isKnown X x && !il.any (fun e => pyEq e x)

/-- The child of an input node at a step, when `dump` (called with these names and this ignore list) recurses
    into that position. -/
def child (X : DumpCtx) (sm ia : String) (ig : List PyVal) : PyVal → Step → Option PyVal
  | .list xs, .item i => xs[i]?
  | .tuple xs, .item i => xs[i]?
  | .set xs, .item i => xs[i]?
  | .frozenset xs, .item i => xs[i]?
  | .dict kvs, .value i => (kvs[i]?).map (·.2)
  | .obj c fs, .field n =>
    match X.env.lookup c with
    | some d =>
      if fieldWise d sm then
        match ignoreListOf d fs ia ig, fs.lookup n with
        | some il, some x => if fieldKept X c fs il n x then some x else Option.none
        | _, _ => Option.none
      else Option.none
    | Option.none => Option.none
  | _, _ => Option.none

/-- The node reached from `v` along a path, every proper ancestor being unhandled. -/
def walk (X : DumpCtx) (sm ia : String) (ig : List PyVal) : PyVal → List Step → Option PyVal
  | v, [] => some v
  | v, s :: p =>
    if (handlerFor X.cfg v).isNone then
      match child X sm ia ig v s with
      | some c => walk X sm ia ig c p
      | Option.none => Option.none
    else Option.none

/-- The same step in the output: list index, dict entry index, or — for a dumped instance — the key. -/
def outChild : PyVal → Step → Option PyVal
  | .list ys, .item i => ys[i]?
  | .dict kvs, .value i => (kvs[i]?).map (·.2)
  | .dict kvs, .field n => lookupStr n kvs
  | _, _ => Option.none

def outAt : PyVal → List Step → Option PyVal
  | d, [] => some d
  | d, s :: p =>
    match outChild d s with
    | some c => outAt c p
    | Option.none => Option.none

/- ---------- one node ---------- -/

/-- A node whose exact type has a non-`None` handler: `dump` *is* the handler's outcome (value or exception),
    whatever the node is — a primitive, a tuple, a dict, an instance of a user class or of a class the
    environment does not even describe — and the handler receives the serialize-method name, the
    ignore-attribute name and the ignore list `dump` was called with. -/
theorem C20_handler_step (X : DumpCtx) (sm ia : String) (ig : List PyVal) (v : PyVal) (h : Nat)
    (hh : handlerFor X.cfg v = some h) : dump X sm ia ig v = X.H h v sm ia ig := by
  unfold dump
  simp [hh]

/-- The lookup is by exact type name: a non-`None` entry for `type(v)` is the handler, a `None` entry or no
    entry means built-in handling — entries for other types (base classes included) are irrelevant. -/
theorem C20_handlerFor_iff (cfg : DumpCfg) (v : PyVal) (h : Nat) :
    handlerFor cfg v = some h ↔ cfg.handlers.lookup v.typeName = some (some h) := by
  unfold handlerFor
  split <;> simp_all

/- ---------- helper lemmas ---------- -/

private theorem bind_ok {α β} {m : PyM α} {f : α → PyM β} {r : β} (h : (m >>= f) = .ok r) :
    ∃ a, m = .ok a ∧ f a = .ok r := by
  cases m with
  | error e => simp [bind, Except.bind] at h
  | ok a => exact ⟨a, rfl, by simpa [bind, Except.bind] using h⟩

section lemmas
variable (X : DumpCtx) (sm ia : String) (ig : List PyVal)

private theorem dumpList_get : ∀ (xs ys : List PyVal) (i : Nat) (c : PyVal), dumpList X sm ia ig xs = .ok ys →
    xs[i]? = some c → ∃ dc, dump X sm ia ig c = .ok dc ∧ ys[i]? = some dc
  | [], _, _, _, _, h => by simp at h
  | x :: xs, ys, i, c, hd, hg => by
    simp only [dumpList] at hd
    obtain ⟨y, hy, hd⟩ := bind_ok hd
    obtain ⟨ys', hys, hd⟩ := bind_ok hd
    simp only [pure, Except.pure, Except.ok.injEq] at hd
    subst hd
    cases i with
    | zero =>
      simp only [List.getElem?_cons_zero, Option.some.injEq] at hg
      subst hg
      exact ⟨y, hy, by simp⟩
    | succ j =>
      simp only [List.getElem?_cons_succ] at hg
      obtain ⟨dc, h1, h2⟩ := dumpList_get xs ys' j c hys hg
      exact ⟨dc, h1, by simpa using h2⟩

private theorem dumpKVs_get : ∀ (xs ys : List (PyVal × PyVal)) (i : Nat) (c : PyVal), dumpKVs X sm ia ig xs = .ok ys →
    (xs[i]?).map (·.2) = some c → ∃ dc, dump X sm ia ig c = .ok dc ∧ (ys[i]?).map (·.2) = some dc
  | [], _, _, _, _, h => by simp at h
  | (k, x) :: xs, ys, i, c, hd, hg => by
    simp only [dumpKVs] at hd
    obtain ⟨y, hy, hd⟩ := bind_ok hd
    obtain ⟨ys', hys, hd⟩ := bind_ok hd
    simp only [pure, Except.pure, Except.ok.injEq] at hd
    subst hd
    cases i with
    | zero =>
      simp only [List.getElem?_cons_zero, Option.map_some, Option.some.injEq] at hg
      subst hg
      exact ⟨y, hy, by simp⟩
    | succ j =>
      simp only [List.getElem?_cons_succ] at hg
      obtain ⟨dc, h1, h2⟩ := dumpKVs_get xs ys' j c hys hg
      exact ⟨dc, h1, by simpa using h2⟩

/-- Keys of the dumped entries are preserved, in order (dict comprehension). -/
private theorem dumpKVs_keys : ∀ (xs ys : List (PyVal × PyVal)), dumpKVs X sm ia ig xs = .ok ys →
    ys.map (·.1) = xs.map (·.1)
  | [], ys, h => by simp [dumpKVs, pure, Except.pure] at h; subst h; rfl
  | (k, x) :: xs, ys, hd => by
    simp only [dumpKVs] at hd
    obtain ⟨y, hy, hd⟩ := bind_ok hd
    obtain ⟨ys', hys, hd⟩ := bind_ok hd
    simp only [pure, Except.pure, Except.ok.injEq] at hd
    subst hd
    simp [dumpKVs_keys xs ys' hys]

private theorem valueIn_ok {env : ClassEnv} {x : PyVal} {il : List PyVal} {b : Bool}
    (h : valueIn env x il = .ok b) : b = il.any (fun e => pyEq e x) := by
  unfold valueIn at h
  split at h
  · simp [raise] at h
  · split at h
    · simp [raise] at h
    · simpa [pure, Except.pure, eq_comm] using h

/-- What the field loop emits: exactly one entry `(name, dump value)` per stored field that is in `keep`, has a
    value of a known type that is not `in` the ignore list; in the order of the stored fields. -/
private theorem dumpFields_mem (keep : List String) (il : List PyVal) :
    ∀ (fs : List (String × PyVal)) (attrs : List (PyVal × PyVal)), dumpFields X sm ia ig keep il fs = .ok attrs →
    ∀ k y, (k, y) ∈ attrs → ∃ n x, k = .str n ∧ (n, x) ∈ fs ∧ keep.contains n = true ∧ isKnown X x = true ∧
      il.any (fun e => pyEq e x) = false ∧ dump X sm ia ig x = .ok y
  | [], attrs, h, k, y, hm => by
    simp [dumpFields, pure, Except.pure] at h; subst h; simp at hm
  | (n, x) :: rest, attrs, h, k, y, hm => by
    simp only [dumpFields] at h
    split at h
    · rename_i hcond
      simp only [Bool.and_eq_true] at hcond
      split at h
      · simp at h
      · obtain ⟨n', x', h1, h2, h3⟩ := dumpFields_mem keep il rest attrs h k y hm
        exact ⟨n', x', h1, List.mem_cons_of_mem _ h2, h3⟩
      · rename_i hv
        obtain ⟨y0, hy0, h⟩ := bind_ok h
        obtain ⟨ys, hys, h⟩ := bind_ok h
        simp only [pure, Except.pure, Except.ok.injEq] at h
        subst h
        simp only [List.mem_cons, Prod.mk.injEq] at hm
        rcases hm with ⟨rfl, rfl⟩ | hm
        · exact ⟨n, x, rfl, by simp, hcond.1, hcond.2, (valueIn_ok hv).symm, hy0⟩
        · obtain ⟨n', x', h1, h2, h3⟩ := dumpFields_mem keep il rest ys hys k y hm
          exact ⟨n', x', h1, List.mem_cons_of_mem _ h2, h3⟩
    · obtain ⟨n', x', h1, h2, h3⟩ := dumpFields_mem keep il rest attrs h k y hm
      exact ⟨n', x', h1, List.mem_cons_of_mem _ h2, h3⟩

/-- A stored field that passes the filter is emitted under its name with the dump of its value. -/
private theorem dumpFields_lookup (keep : List String) (il : List PyVal) (n : String) (x : PyVal) :
    ∀ (fs : List (String × PyVal)) (attrs : List (PyVal × PyVal)), dumpFields X sm ia ig keep il fs = .ok attrs →
    fs.lookup n = some x → keep.contains n = true → isKnown X x = true → il.any (fun e => pyEq e x) = false →
    ∃ y, dump X sm ia ig x = .ok y ∧ lookupStr n attrs = some y
  | [], _, _, hl, _, _, _ => by simp [List.lookup] at hl
  | (m, x') :: rest, attrs, h, hl, hk, hkn, hin => by
    simp only [List.lookup] at hl
    simp only [dumpFields] at h
    cases hnm : n == m with
    | true =>
      have hnm' : n = m := by simpa using hnm
      subst hnm'
      simp only [hnm, Option.some.injEq] at hl
      subst hl
      simp only [hk, hkn, Bool.and_self, ↓reduceIte] at h
      split at h
      · simp at h
      · rename_i hv
        have := valueIn_ok hv
        rw [hin] at this
        simp at this
      · obtain ⟨y0, hy0, h⟩ := bind_ok h
        obtain ⟨ys, hys, h⟩ := bind_ok h
        simp only [pure, Except.pure, Except.ok.injEq] at h
        subst h
        exact ⟨y0, hy0, by simp [lookupStr]⟩
    | false =>
      simp only [hnm] at hl
      have hne : (m == n) = false := by
        have : n ≠ m := by simpa using hnm
        simpa using fun e => this e.symm
      split at h
      · split at h
        · simp at h
        · exact dumpFields_lookup keep il n x rest attrs h hl hk hkn hin
        · obtain ⟨y0, hy0, h⟩ := bind_ok h
          obtain ⟨ys, hys, h⟩ := bind_ok h
          simp only [pure, Except.pure, Except.ok.injEq] at h
          subst h
          obtain ⟨y, h1, h2⟩ := dumpFields_lookup keep il n x rest ys hys hl hk hkn hin
          exact ⟨y, h1, by simp [lookupStr, hne, h2]⟩
      · exact dumpFields_lookup keep il n x rest attrs h hl hk hkn hin

/-- An unhandled instance of a class dumped field-wise goes through the `else:` branch. -/
private theorem dump_fieldWise {c : String} {fs : List (String × PyVal)} {d : ClassDef} {r : PyVal}
    (hh : handlerFor X.cfg (.obj c fs) = Option.none) (hc : X.env.lookup c = some d) (hf : fieldWise d sm = true)
    (hd : dump X sm ia ig (.obj c fs) = .ok r) :
    dumpBean X sm ia ig d c (emitName d) fs = .ok r ∧ namesDistinct (fs.map (·.1)) = true := by
  unfold dump at hd
  simp only [hh, hc] at hd
  split at hd
  · simp [raise] at hd
  · rename_i hnd
    split at hd
    · simp [raise] at hd
    · unfold fieldWise at hf
      cases hk : d.kind with
      | bean init => simp only [hk] at hd; exact ⟨hd, by simpa using hnd⟩
      | serial m b ps as base =>
        simp only [hk, bne_iff_ne, ne_eq] at hd hf
        have : (m == sm) = false := by simpa using hf
        simp only [this, Bool.false_eq_true, ↓reduceIte] at hd
        exact ⟨hd, by simpa using hnd⟩
      | enum ms => simp [hk] at hf
      | decimal => simp [hk] at hf
      | raising e => simp [hk] at hf

/-- The shape of a successful field-wise dump. -/
private theorem dumpBean_ok {c : String} {fs : List (String × PyVal)} {d : ClassDef} {r : PyVal} {jc : String}
    (hd : dumpBean X sm ia ig d c jc fs = .ok r) :
    ∃ own attrs, getAttrD d fs ia (.list []) = .list own ∧
      dumpFields X sm ia ig ((findFields X.env c (fs.map (·.1))).filter
        (fun n => !(own ++ ig).any (fun e => pyEq e (.str n)))) (own ++ ig) fs = .ok attrs ∧
      r = .dict ((.str jcKey, .list [.str jc, .list []]) :: attrs) ∧
      ((findFields X.env c (fs.map (·.1))).filter
        (fun n => !(own ++ ig).any (fun e => pyEq e (.str n)))).contains jcKey = false := by
  unfold dumpBean at hd
  split at hd
  · rename_i own hown
    simp only at hd
    split at hd
    · simp [raise] at hd
    · split at hd
      · simp [raise] at hd
      · split at hd
        · simp [raise] at hd
        · rename_i hjc
          split at hd
          · simp [raise] at hd
          · rename_i hjc
            obtain ⟨attrs, ha, hd⟩ := bind_ok hd
            simp only [pure, Except.pure, Except.ok.injEq] at hd
            exact ⟨own, attrs, hown, ha, hd.symm, by simpa using hjc⟩
  · simp [raise] at hd

/-- The shape of a successful dump through the object's own serialisation method. -/
private theorem dump_viaMethod {c : String} {fs : List (String × PyVal)} {d : ClassDef} {r : PyVal}
    {m : String} {byDict : Bool} {ps as : List String} {base : List (String × PyVal)}
    (hh : handlerFor X.cfg (.obj c fs) = Option.none) (hc : X.env.lookup c = some d)
    (hk : d.kind = .serial m byDict ps as base) (hm : m = sm)
    (hd : dump X sm ia ig (.obj c fs) = .ok r) :
    ∃ pvs avs own, lookupAll fs ps = some pvs ∧ lookupAll fs as = some avs ∧ getAttrD d fs ia (.list []) = .list own ∧
      r = .dict ((.str jcKey, .list [.str (emitName d), serialParams byDict ps pvs]) ::
            ((as.zip avs).filter fun (k, _) => !nameIgnored (own ++ ig) k).map fun (k, x) => (PyVal.str k, x)) := by
  subst hm
  unfold dump at hd
  simp only [hh, hc] at hd
  split at hd
  · simp [raise] at hd
  · split at hd
    · simp [raise] at hd
    · simp only [hk, beq_self_eq_true, ↓reduceIte] at hd
      split at hd
      · rename_i pvs avs hp ha
        split at hd
        · simp [raise] at hd
        · split at hd
          · rename_i own hown
            simp only [pure, Except.pure, Except.ok.injEq] at hd
            exact ⟨pvs, avs, own, hp, ha, hown, hd.symm⟩
          · simp [raise] at hd
      · simp [raise] at hd

/-- Enum members and Decimals are dumped as the bare descriptor: no attribute at all. -/
private theorem dump_enum_decimal {c : String} {fs : List (String × PyVal)} {d : ClassDef} {r : PyVal}
    (hh : handlerFor X.cfg (.obj c fs) = Option.none) (hc : X.env.lookup c = some d)
    (hk : (∃ ms, d.kind = .enum ms) ∨ d.kind = .decimal)
    (hd : dump X sm ia ig (.obj c fs) = .ok r) : ∃ desc, r = .dict [(.str jcKey, desc)] := by
  unfold dump at hd
  simp only [hh, hc] at hd
  split at hd
  · simp [raise] at hd
  · split at hd
    · simp [raise] at hd
    · rcases hk with ⟨ms, hk⟩ | hk
      · simp only [hk] at hd
        split at hd
        · simp only [pure, Except.pure, Except.ok.injEq] at hd
          exact ⟨_, hd.symm⟩
        · simp [raise] at hd
      · simp only [hk] at hd
        split at hd
        · simp only [pure, Except.pure, Except.ok.injEq] at hd
          exact ⟨_, hd.symm⟩
        · simp [raise] at hd

private theorem dump_raising {c : String} {fs : List (String × PyVal)} {d : ClassDef} {r : PyVal} {e : String}
    (hh : handlerFor X.cfg (.obj c fs) = Option.none) (hc : X.env.lookup c = some d) (hk : d.kind = .raising e)
    (hd : dump X sm ia ig (.obj c fs) = .ok r) : False := by
  unfold dump at hd
  simp only [hh, hc] at hd
  split at hd
  · simp [raise] at hd
  · split at hd
    · simp [raise] at hd
    · simp [hk, raise] at hd

end lemmas

/-- An attribute whose name is in the ignore list is not among the attributes emitted for an object dumped
    through its serialisation method. -/
private theorem lookupStr_filtered_none (il : List PyVal) (n : String) (hn : nameIgnored il n = true) :
    ∀ (l : List (String × PyVal)),
    lookupStr n ((l.filter fun (k, _) => !nameIgnored il k).map fun (k, x) => (PyVal.str k, x)) = Option.none
  | [] => by simp [lookupStr]
  | (k, x) :: rest => by
    by_cases hk : k = n
    · subst hk
      simp [List.filter, hn, lookupStr_filtered_none il k hn rest]
    · have hne : (k == n) = false := by simpa using hk
      cases hik : nameIgnored il k with
      | true => simp [List.filter, hik, lookupStr_filtered_none il n hn rest]
      | false => simp [List.filter, hik, lookupStr, hne, lookupStr_filtered_none il n hn rest]

/-- … and an attribute whose name is not in the list is emitted with the very value the method returned. -/
private theorem lookupStr_filtered_some (il : List PyVal) (n : String) (x : PyVal) (hn : nameIgnored il n = false) :
    ∀ (l : List (String × PyVal)), l.lookup n = some x →
    lookupStr n ((l.filter fun (k, _) => !nameIgnored il k).map fun (k, x) => (PyVal.str k, x)) = some x
  | [], h => by simp [List.lookup] at h
  | (k, y) :: rest, h => by
    simp only [List.lookup] at h
    by_cases hk : n = k
    · subst hk
      simp only [beq_self_eq_true, Option.some.injEq] at h
      subst h
      simp [List.filter, hn, lookupStr]
    · have hne : (n == k) = false := by simpa using hk
      have hne' : (k == n) = false := by simpa using fun e : k = n => hk e.symm
      simp only [hne] at h
      cases hik : nameIgnored il k with
      | true => simp [List.filter, hik, lookupStr_filtered_some il n x hn rest h]
      | false => simp [List.filter, hik, lookupStr, hne', lookupStr_filtered_some il n x hn rest h]

/- ---------- every depth ---------- -/

section depth
variable (X : DumpCtx) (sm ia : String) (ig : List PyVal)

/-- One step: `dump` recurses into every child position with the same arguments, and puts the child's dump at
    the same position of its result. -/
private theorem step_lemma (v d c : PyVal) (s : Step) (hd : dump X sm ia ig v = .ok d)
    (hh : handlerFor X.cfg v = Option.none) (hc : child X sm ia ig v s = some c) :
    ∃ dc, dump X sm ia ig c = .ok dc ∧ outChild d s = some dc := by
  have iter : ∀ xs : List PyVal, ∀ i, dump X sm ia ig v = (do let ys ← dumpList X sm ia ig xs; pure (.list ys)) →
      xs[i]? = some c → s = .item i → ∃ dc, dump X sm ia ig c = .ok dc ∧ outChild d s = some dc := by
    intro xs i hv hg hs
    rw [hv] at hd
    obtain ⟨ys, hys, hd⟩ := bind_ok hd
    simp only [pure, Except.pure, Except.ok.injEq] at hd
    subst hd hs
    obtain ⟨dc, h1, h2⟩ := dumpList_get X sm ia ig xs ys i c hys hg
    exact ⟨dc, h1, by simpa [outChild] using h2⟩
  cases v with
  | none => cases s <;> simp [child] at hc
  | bool _ => cases s <;> simp [child] at hc
  | int _ => cases s <;> simp [child] at hc
  | float _ => cases s <;> simp [child] at hc
  | str _ => cases s <;> simp [child] at hc
  | list xs =>
    cases s with
    | item i => exact iter xs i (by unfold dump; simp [hh]) (by simpa [child] using hc) rfl
    | value i => simp [child] at hc
    | field n => simp [child] at hc
  | tuple xs =>
    cases s with
    | item i => exact iter xs i (by unfold dump; simp [hh]) (by simpa [child] using hc) rfl
    | value i => simp [child] at hc
    | field n => simp [child] at hc
  | set xs =>
    cases s with
    | item i => exact iter xs i (by unfold dump; simp [hh]) (by simpa [child] using hc) rfl
    | value i => simp [child] at hc
    | field n => simp [child] at hc
  | frozenset xs =>
    cases s with
    | item i => exact iter xs i (by unfold dump; simp [hh]) (by simpa [child] using hc) rfl
    | value i => simp [child] at hc
    | field n => simp [child] at hc
  | dict kvs =>
    cases s with
    | item i => simp [child] at hc
    | field n => simp [child] at hc
    | value i =>
      have hv : dump X sm ia ig (.dict kvs) = (do let ys ← dumpKVs X sm ia ig kvs; pure (.dict ys)) := by
        unfold dump; simp [hh]
      rw [hv] at hd
      obtain ⟨ys, hys, hd⟩ := bind_ok hd
      simp only [pure, Except.pure, Except.ok.injEq] at hd
      subst hd
      obtain ⟨dc, h1, h2⟩ := dumpKVs_get X sm ia ig kvs ys i c hys (by simpa [child] using hc)
      exact ⟨dc, h1, by simpa [outChild] using h2⟩
  | obj cl fs =>
    cases s with
    | item i => simp [child] at hc
    | value i => simp [child] at hc
    | field n =>
      simp only [child] at hc
      cases hcl : X.env.lookup cl with
      | none => simp [hcl] at hc
      | some cd =>
        simp only [hcl] at hc
        split at hc
        · rename_i hfw
          split at hc
          · rename_i il x hil hx
            split at hc
            · rename_i hkept
              simp only [Option.some.injEq] at hc
              subst hc
              obtain ⟨hb, _⟩ := dump_fieldWise X sm ia ig hh hcl hfw hd
              obtain ⟨own, attrs, hown, hattrs, hr, hjc⟩ := dumpBean_ok X sm ia ig hb
              have hil' : il = own ++ ig := by
                unfold ignoreListOf at hil
                rw [hown] at hil
                simpa [eq_comm] using hil
              subst hil'
              simp only [fieldKept, Bool.and_eq_true, Bool.not_eq_true'] at hkept
              obtain ⟨⟨⟨hk1, hk2⟩, hk3⟩, hk4⟩ := hkept
              have hkeep : ((findFields X.env cl (fs.map (·.1))).filter
                  (fun n => !(own ++ ig).any (fun e => pyEq e (.str n)))).contains n = true := by
                simp only [List.contains_eq_mem, List.mem_filter, decide_eq_true_eq, Bool.not_eq_true'] at hk1 ⊢
                exact ⟨hk1, hk2⟩
              obtain ⟨y, hy, hl⟩ := dumpFields_lookup X sm ia ig _ _ n x fs attrs hattrs hx hkeep hk3 hk4
              refine ⟨y, hy, ?_⟩
              subst hr
              have hne : (jcKey == n) = false := by
                cases hjn : jcKey == n with
                | false => rfl
                | true =>
                  have : jcKey = n := by simpa using hjn
                  subst this
                  rw [hkeep] at hjc
                  exact absurd hjc (by simp)
              simp [outChild, lookupStr, hne, hl]
            · simp at hc
          · simp at hc
        · simp at hc

/-- **Every depth.**  A node reached from the root through positions `dump` recurses into, below unhandled
    ancestors, is dumped with the *same* serialize-method name, ignore-attribute name, ignore list and
    configuration (class environment, handler table, handler functions) as the root — every recursive call
    forwards them — and its dump is found, verbatim, at the same path of the root's dump. -/
theorem C20_same_arguments_everywhere : ∀ (p : List Step) (root d node : PyVal),
    dump X sm ia ig root = .ok d → walk X sm ia ig root p = some node →
    ∃ r, dump X sm ia ig node = .ok r ∧ outAt d p = some r
  | [], root, d, node, hd, hw => by
    simp only [walk, Option.some.injEq] at hw
    subst hw
    exact ⟨d, hd, rfl⟩
  | s :: p, root, d, node, hd, hw => by
    simp only [walk] at hw
    split at hw
    · rename_i hh
      rw [Option.isNone_iff_eq_none] at hh
      split at hw
      · rename_i c hc
        obtain ⟨dc, h1, h2⟩ := step_lemma X sm ia ig root d c s hd hh hc
        obtain ⟨r, h3, h4⟩ := C20_same_arguments_everywhere p c dc node h1 hw
        exact ⟨r, h3, by simp [outAt, h2, h4]⟩
      · simp at hw
    · simp at hw

/-- **Handlers at every depth.**  Whenever the dump of a value succeeds, every node of it — the value itself,
    an item of a list / tuple / set / frozenset, a dict value, a field value of an instance, at any nesting
    depth — whose exact type has a non-`None` handler has been replaced by that handler's return value,
    verbatim, at the same position of the output; the handler was given the node itself, the configured (or
    explicitly passed) serialize-method and ignore-attribute names and the ignore list.  This holds whatever the
    node is (built-in kinds such as tuple or str, user classes, classes unknown to the environment), because the
    lookup precedes every built-in test (`C20_handler_step`). -/
theorem C20_handler_everywhere (p : List Step) (root d node : PyVal) (h : Nat)
    (hd : dump X sm ia ig root = .ok d) (hw : walk X sm ia ig root p = some node)
    (hh : handlerFor X.cfg node = some h) :
    ∃ r, X.H h node sm ia ig = .ok r ∧ outAt d p = some r := by
  obtain ⟨r, h1, h2⟩ := C20_same_arguments_everywhere X sm ia ig p root d node hd hw
  rw [C20_handler_step X sm ia ig node h hh] at h1
  exact ⟨r, h1, h2⟩

/-- A handler that raises anywhere on a visited path makes the whole dump raise: no partial output, no
    built-in fallback for the node. -/
theorem C20_handler_raises_propagates (p : List Step) (root node : PyVal) (h : Nat) (e : PyErr)
    (hw : walk X sm ia ig root p = some node) (hh : handlerFor X.cfg node = some h)
    (he : X.H h node sm ia ig = .error e) : ∃ e', dump X sm ia ig root = .error e' := by
  cases hd : dump X sm ia ig root with
  | error e' => exact ⟨e', rfl⟩
  | ok d =>
    obtain ⟨r, h1, _⟩ := C20_handler_everywhere X sm ia ig p root d node h hd hw hh
    rw [he] at h1
    exact absurd h1 (by simp)

end depth

/- ---------- exact-type lookup ---------- -/

private theorem lookup_mem' {α} (l : List (String × α)) (c : String) (d : α) (h : l.lookup c = some d) : (c, d) ∈ l := by
  induction l with
  | nil => simp [List.lookup] at h
  | cons e es ih =>
    obtain ⟨k, x⟩ := e
    simp only [List.lookup] at h
    by_cases hk : c = k
    · subst hk; simp at h; subst h; simp
    · have : (c == k) = false := by simpa using hk
      simp only [this] at h
      exact List.mem_cons_of_mem _ (ih h)

private theorem isSubclass_refl (env : ClassEnv) (c : String) : isSubclass env c c = true := by
  cases env with
  | nil => simp [isSubclass]
  | cons e es => obtain ⟨k, d⟩ := e; simp [isSubclass]

/-- **Exact type.**  A handler registered for a base class `b` is *not* used for an instance of a subclass `c`
    that has no entry of its own (the instance gets built-in handling) although it is used for instances of `b`
    itself; the subclass instance nevertheless counts as a known type (`isinstance` against the handler types),
    so as a field value it is kept and dumped by the built-in rules. -/
theorem C20_handler_exact_type (X : DumpCtx) (c b : String) (fs fs' : List (String × PyVal)) (hid : Nat)
    (hsub : isSubclass X.env c b = true) (hb : X.cfg.handlers.lookup b = some (some hid))
    (hc : X.cfg.handlers.lookup c = Option.none) :
    handlerFor X.cfg (.obj c fs) = Option.none ∧ handlerFor X.cfg (.obj b fs') = some hid ∧
    isKnown X (.obj c fs) = true := by
  refine ⟨by simp [handlerFor, typeName, hc], by simp [handlerFor, typeName, hb], ?_⟩
  simp only [isKnown, List.any_eq_true]
  exact ⟨(b, some hid), lookup_mem' _ _ _ hb, hsub⟩

/-- A `None` entry falls through to built-in handling (and still makes the type a known field type). -/
theorem C20_none_entry_falls_through (X : DumpCtx) (v : PyVal) (h : X.cfg.handlers.lookup v.typeName = some Option.none) :
    handlerFor X.cfg v = Option.none := by
  simp [handlerFor, h]

/-- Built-in handling of an unhandled node: primitives are returned as they are, the four iterable kinds become
    the list of the dumps of their items, a dict keeps its keys and has its values dumped. -/
theorem C20_builtin_when_unhandled (X : DumpCtx) (sm ia : String) (ig : List PyVal) (v : PyVal)
    (hh : handlerFor X.cfg v = Option.none) :
    (v.isPrimitive = true → dump X sm ia ig v = .ok v) ∧
    (∀ xs, v.items? = some xs → dump X sm ia ig v = (dumpList X sm ia ig xs).map PyVal.list) ∧
    (∀ kvs, v = .dict kvs → dump X sm ia ig v = (dumpKVs X sm ia ig kvs).map PyVal.dict) := by
  have hm : ∀ {α} (m : PyM α) (f : α → PyVal), (do let ys ← m; pure (f ys)) = m.map f := by
    intro α m f; cases m <;> rfl
  refine ⟨?_, ?_, ?_⟩
  · intro hp
    cases v <;> simp [isPrimitive] at hp <;> (unfold dump; simp [hh, pure, Except.pure])
  · intro xs hx
    cases v <;> simp [items?] at hx <;> (subst hx; unfold dump; simp only [hh]; exact hm _ _)
  · intro kvs hk
    subst hk
    unfold dump
    simp only [hh]
    exact hm _ _

/- ---------- the dumped form of an instance: ignore lists, unsupported values ---------- -/

private theorem namesDistinct_cons' {n : String} {ns : List String} (h : namesDistinct (n :: ns) = true) :
    n ∉ ns ∧ namesDistinct ns = true := by
  simp only [namesDistinct, Bool.and_eq_true, Bool.not_eq_true', List.contains_eq_mem, decide_eq_false_iff_not] at h
  exact h

private theorem mem_lookup_distinct' : ∀ (fs : List (String × PyVal)) (n : String) (v : PyVal),
    namesDistinct (fs.map (·.1)) = true → (n, v) ∈ fs → fs.lookup n = some v
  | [], _, _, _, h => by simp at h
  | (m, x) :: rest, n, v, hd, h => by
    have ⟨h1, h2⟩ := namesDistinct_cons' (n := m) (ns := rest.map (·.1)) (by simpa using hd)
    simp only [List.mem_cons, Prod.mk.injEq] at h
    rcases h with ⟨rfl, rfl⟩ | h
    · simp [List.lookup]
    · have hne : (n == m) = false := by
        have : n ∈ List.map (fun x => x.fst) rest := List.mem_map.mpr ⟨(n, v), h, rfl⟩
        simpa using fun e : n = m => h1 (e ▸ this)
      simp [List.lookup, hne, mem_lookup_distinct' rest n v h2 h]

private theorem lookupStr_mem : ∀ (kvs : List (PyVal × PyVal)) (n : String) (y : PyVal),
    lookupStr n kvs = some y → (PyVal.str n, y) ∈ kvs
  | [], _, _, h => by simp [lookupStr] at h
  | (k, v) :: rest, n, y, h => by
    cases k with
    | str s =>
      simp only [lookupStr] at h
      split at h
      · rename_i hs
        have : s = n := by simpa using hs
        subst this
        simp only [Option.some.injEq] at h
        subst h
        simp
      · exact List.mem_cons_of_mem _ (lookupStr_mem rest n y h)
    | _ => all_goals (simp only [lookupStr] at h; exact List.mem_cons_of_mem _ (lookupStr_mem rest n y h))

private theorem pyEq_str_self (n : String) : pyEq (.str n) (.str n) = true := by simp [pyEq]

/-- **The dumped form of an instance** that is dumped field-wise (no handler for its exact type; a bean, or a
    class whose serialisation method is not the one consulted): the descriptor `[class name, []]` under
    "__jsonclass__", followed by exactly the stored fields that pass the filter `fieldKept` — discovered field,
    name not in `getattr(obj, ignore_attribute, []) + ignore`, value of a supported or handled type, value not
    `in` that list — each with the dump of its value under the same arguments. -/
theorem C20_dumped_fields (X : DumpCtx) (sm ia : String) (ig : List PyVal) (c : String) (fs : List (String × PyVal))
    (d : ClassDef) (r : PyVal) (hh : handlerFor X.cfg (.obj c fs) = Option.none) (hc : X.env.lookup c = some d)
    (hf : fieldWise d sm = true) (hd : dump X sm ia ig (.obj c fs) = .ok r) :
    ∃ il attrs, ignoreListOf d fs ia ig = some il ∧
      r = .dict ((.str jcKey, .list [.str (emitName d), .list []]) :: attrs) ∧
      (∀ k y, (k, y) ∈ attrs → ∃ n x, k = .str n ∧ fs.lookup n = some x ∧ fieldKept X c fs il n x = true ∧
        dump X sm ia ig x = .ok y) ∧
      (∀ n x, fs.lookup n = some x → fieldKept X c fs il n x = true →
        ∃ y, dump X sm ia ig x = .ok y ∧ lookupStr n attrs = some y) := by
  obtain ⟨hb, hnd⟩ := dump_fieldWise X sm ia ig hh hc hf hd
  obtain ⟨own, attrs, hown, hattrs, hr, hjc⟩ := dumpBean_ok X sm ia ig hb
  refine ⟨own ++ ig, attrs, by simp [ignoreListOf, hown], hr, ?_, ?_⟩
  · intro k y hm
    obtain ⟨n, x, h1, h2, h3, h4, h5, h6⟩ := dumpFields_mem X sm ia ig _ _ fs attrs hattrs k y hm
    refine ⟨n, x, h1, mem_lookup_distinct' fs n x hnd h2, ?_, h6⟩
    simp only [List.contains_eq_mem, List.mem_filter, decide_eq_true_eq, Bool.not_eq_true'] at h3
    simp [fieldKept, h3.1, h3.2, h4, h5]
  · intro n x hl hk
    simp only [fieldKept, Bool.and_eq_true, Bool.not_eq_true'] at hk
    obtain ⟨⟨⟨hk1, hk2⟩, hk3⟩, hk4⟩ := hk
    refine dumpFields_lookup X sm ia ig _ _ n x fs attrs hattrs hl ?_ hk3 hk4
    simp only [List.contains_eq_mem, List.mem_filter, decide_eq_true_eq, Bool.not_eq_true'] at hk1 ⊢
    exact ⟨hk1, hk2⟩

/-- Where the object's own ignore list comes from: the instance attribute named `ia` if the instance stores
    one, else the class attribute of that name (inherited ones included), else `[]`; `ignore` is appended. -/
theorem C20_ignore_sources (d : ClassDef) (fs : List (String × PyVal)) (ia : String) (ig own : List PyVal) :
    (fs.lookup ia = some (.list own) → ignoreListOf d fs ia ig = some (own ++ ig)) ∧
    (fs.lookup ia = Option.none → d.classAttrs.lookup ia = some (.list own) → ignoreListOf d fs ia ig = some (own ++ ig)) ∧
    (fs.lookup ia = Option.none → d.classAttrs.lookup ia = Option.none → ignoreListOf d fs ia ig = some ig) := by
  refine ⟨?_, ?_, ?_⟩
  · intro h; simp [ignoreListOf, getAttrD, h]
  · intro h1 h2; simp [ignoreListOf, getAttrD, h1, h2]
  · intro h1 h2; simp [ignoreListOf, getAttrD, h1, h2]

/-- The field-wise case of `C20_ignore`, with the shape of the descriptor. -/
theorem C20_ignore_fieldwise (X : DumpCtx) (sm ia : String) (ig : List PyVal) (c : String) (fs : List (String × PyVal))
    (d : ClassDef) (r : PyVal) (hh : handlerFor X.cfg (.obj c fs) = Option.none) (hc : X.env.lookup c = some d)
    (hf : fieldWise d sm = true) (hd : dump X sm ia ig (.obj c fs) = .ok r) :
    ∃ own attrs, getAttrD d fs ia (.list []) = .list own ∧
      r = .dict ((.str jcKey, .list [.str (emitName d), .list []]) :: attrs) ∧
      (∀ n, (PyVal.str n ∈ own ∨ PyVal.str n ∈ ig) → lookupStr n attrs = Option.none) ∧
      (∀ n x, fs.lookup n = some x → (own ++ ig).any (fun e => pyEq e x) = true → lookupStr n attrs = Option.none) := by
  obtain ⟨il, attrs, hil, hr, hmem, _⟩ := C20_dumped_fields X sm ia ig c fs d r hh hc hf hd
  unfold ignoreListOf at hil
  split at hil
  · rename_i own hown
    simp only [Option.some.injEq] at hil
    subst hil
    refine ⟨own, attrs, hown, hr, ?_, ?_⟩
    · intro n hn
      cases hl : lookupStr n attrs with
      | none => rfl
      | some y =>
        exfalso
        obtain ⟨n', x, h1, h2, h3, _⟩ := hmem _ _ (lookupStr_mem attrs n y hl)
        simp only [PyVal.str.injEq] at h1
        subst h1
        simp only [fieldKept, Bool.and_eq_true, Bool.not_eq_true', List.any_eq_false] at h3
        have hin : PyVal.str n ∈ own ++ ig := by simpa [List.mem_append] using hn
        exact h3.1.1.2 _ hin (pyEq_str_self n)
    · intro n x hx hany
      cases hl : lookupStr n attrs with
      | none => rfl
      | some y =>
        exfalso
        obtain ⟨n', x', h1, h2, h3, _⟩ := hmem _ _ (lookupStr_mem attrs n y hl)
        simp only [PyVal.str.injEq] at h1
        subst h1
        rw [hx] at h2
        simp only [Option.some.injEq] at h2
        subst h2
        simp only [fieldKept, Bool.and_eq_true, Bool.not_eq_true'] at h3
        rw [hany] at h3
        exact absurd h3.2 (by simp)
  · simp at hil

/-- **The dumped form of an object that has the serialisation method in force**: the descriptor
    `[class name, params]` followed by the attributes the method returned — in the method's order, each with the
    very value the method returned (no recursive dump, no handler, no test of the value against the ignore
    list) — *minus* those whose name is in `getattr(obj, ignore_attribute, []) + ignore`. -/
theorem C20_method_form (X : DumpCtx) (sm ia : String) (ig : List PyVal) (c : String) (fs : List (String × PyVal))
    (d : ClassDef) (r : PyVal) (m : String) (byDict : Bool) (ps as : List String) (base : List (String × PyVal))
    (hh : handlerFor X.cfg (.obj c fs) = Option.none) (hc : X.env.lookup c = some d)
    (hk : d.kind = .serial m byDict ps as base) (hm : m = sm) (hd : dump X sm ia ig (.obj c fs) = .ok r) :
    ∃ pvs avs own, lookupAll fs ps = some pvs ∧ lookupAll fs as = some avs ∧ getAttrD d fs ia (.list []) = .list own ∧
      r = .dict ((.str jcKey, .list [.str (emitName d), serialParams byDict ps pvs]) ::
            ((as.zip avs).filter fun (k, _) => !nameIgnored (own ++ ig) k).map fun (k, x) => (PyVal.str k, x)) :=
  dump_viaMethod X sm ia ig hh hc hk hm hd

/-- **Ignore lists.**  In the dumped form of *any* instance — dumped field by field, or through its own
    serialisation method, or an enum member or a Decimal — no key other than "__jsonclass__" is a name listed in
    the `ignore` argument or in the object's own ignore list (instance attribute called `ia`, else class attribute,
    inherited ones included).  For an instance dumped field by field, moreover, no stored field whose *value* is
    `in` that list (Python `==` against each entry) appears; for an object dumped through its method the values
    are not looked at (`C20_method_form`). -/
theorem C20_ignore (X : DumpCtx) (sm ia : String) (ig : List PyVal) (c : String) (fs : List (String × PyVal))
    (d : ClassDef) (r : PyVal) (hh : handlerFor X.cfg (.obj c fs) = Option.none) (hc : X.env.lookup c = some d)
    (hd : dump X sm ia ig (.obj c fs) = .ok r) :
    ∃ desc attrs, r = .dict ((.str jcKey, desc) :: attrs) ∧
      (∀ n, (PyVal.str n ∈ ig ∨ ∃ own, getAttrD d fs ia (.list []) = .list own ∧ PyVal.str n ∈ own) →
        lookupStr n attrs = Option.none) ∧
      ((fieldWise d sm = true ∨ viaMethod d sm = true) → ∃ own, getAttrD d fs ia (.list []) = .list own) ∧
      (fieldWise d sm = true → ∀ own, getAttrD d fs ia (.list []) = .list own → ∀ n x, fs.lookup n = some x →
        (own ++ ig).any (fun e => pyEq e x) = true → lookupStr n attrs = Option.none) := by
  have fw : fieldWise d sm = true → _ := fun hf => C20_ignore_fieldwise X sm ia ig c fs d r hh hc hf hd
  have fwcase : fieldWise d sm = true → viaMethod d sm = false → ∃ desc attrs, r = .dict ((.str jcKey, desc) :: attrs) ∧
      (∀ n, (PyVal.str n ∈ ig ∨ ∃ own, getAttrD d fs ia (.list []) = .list own ∧ PyVal.str n ∈ own) →
        lookupStr n attrs = Option.none) ∧
      ((fieldWise d sm = true ∨ viaMethod d sm = true) → ∃ own, getAttrD d fs ia (.list []) = .list own) ∧
      (fieldWise d sm = true → ∀ own, getAttrD d fs ia (.list []) = .list own → ∀ n x, fs.lookup n = some x →
        (own ++ ig).any (fun e => pyEq e x) = true → lookupStr n attrs = Option.none) := by
    intro hf hv
    obtain ⟨own, attrs, g1, g2, g3, g4⟩ := fw hf
    refine ⟨_, attrs, g2, ?_, fun _ => ⟨own, g1⟩, ?_⟩
    · rintro n (hn | ⟨own', ho, hn⟩)
      · exact g3 n (Or.inr hn)
      · rw [g1] at ho
        simp only [PyVal.list.injEq] at ho
        subst ho
        exact g3 n (Or.inl hn)
    · intro _ own' ho n x hx hany
      rw [g1] at ho
      simp only [PyVal.list.injEq] at ho
      subst ho
      exact g4 n x hx hany
  cases hk : d.kind with
  | bean init => exact fwcase (by simp [fieldWise, hk]) (by simp [viaMethod, hk])
  | serial m byDict ps as base =>
    by_cases hm : m = sm
    · obtain ⟨pvs, avs, own, _, _, hown, hr⟩ := dump_viaMethod X sm ia ig hh hc hk hm hd
      refine ⟨_, _, hr, ?_, fun _ => ⟨own, hown⟩, ?_⟩
      · intro n hn
        apply lookupStr_filtered_none
        rw [nameIgnored_iff, List.mem_append]
        rcases hn with hn | ⟨own', ho, hn⟩
        · exact Or.inr hn
        · rw [hown] at ho
          simp only [PyVal.list.injEq] at ho
          subst ho
          exact Or.inl hn
      · intro hf
        simp [fieldWise, hk, hm] at hf
    · exact fwcase (by simp [fieldWise, hk, hm]) (by simp [viaMethod, hk, hm])
  | enum ms =>
    obtain ⟨desc, hr⟩ := dump_enum_decimal X sm ia ig hh hc (Or.inl ⟨ms, hk⟩) hd
    exact ⟨desc, [], hr, fun _ _ => by simp [lookupStr], by simp [fieldWise, viaMethod, hk], by simp [fieldWise, hk]⟩
  | decimal =>
    obtain ⟨desc, hr⟩ := dump_enum_decimal X sm ia ig hh hc (Or.inr hk) hd
    exact ⟨desc, [], hr, fun _ _ => by simp [lookupStr], by simp [fieldWise, viaMethod, hk], by simp [fieldWise, hk]⟩
  | raising e => exact (dump_raising X sm ia ig hh hc hk hd).elim

/-- **Ignore lists at every depth.**  The same `ignore` argument reaches every nested dump: for an instance
    found at any visited path of the value — whatever its class shape, dumped field by field or through its own
    serialisation method — the conclusions of `C20_ignore` hold for the dict found at that path of the output,
    with the `ignore` list of the *top-level* call. -/
theorem C20_ignore_everywhere (X : DumpCtx) (sm ia : String) (ig : List PyVal) (p : List Step) (root out : PyVal)
    (c : String) (fs : List (String × PyVal)) (d : ClassDef)
    (hd : dump X sm ia ig root = .ok out) (hw : walk X sm ia ig root p = some (.obj c fs))
    (hh : handlerFor X.cfg (.obj c fs) = Option.none) (hc : X.env.lookup c = some d) :
    ∃ desc attrs, outAt out p = some (.dict ((.str jcKey, desc) :: attrs)) ∧
      (∀ n, (PyVal.str n ∈ ig ∨ ∃ own, getAttrD d fs ia (.list []) = .list own ∧ PyVal.str n ∈ own) →
        lookupStr n attrs = Option.none) ∧
      ((fieldWise d sm = true ∨ viaMethod d sm = true) → ∃ own, getAttrD d fs ia (.list []) = .list own) ∧
      (fieldWise d sm = true → ∀ own, getAttrD d fs ia (.list []) = .list own → ∀ n x, fs.lookup n = some x →
        (own ++ ig).any (fun e => pyEq e x) = true → lookupStr n attrs = Option.none) := by
  obtain ⟨r, h1, h2⟩ := C20_same_arguments_everywhere X sm ia ig p root out _ hd hw
  obtain ⟨desc, attrs, g2, g3, g4, g5⟩ := C20_ignore X sm ia ig c fs d r hh hc h1
  subst g2
  exact ⟨desc, attrs, h2, g3, g4, g5⟩

/-- A type that has an entry in the handler table (even a `None` one) is a known field type:
    `known_types = SUPPORTED_TYPES + tuple(config.serialize_handlers)`. -/
theorem C20_handled_type_is_known (X : DumpCtx) (c : String) (fs : List (String × PyVal)) (e : Option Nat)
    (h : X.cfg.handlers.lookup c = some e) : isKnown X (.obj c fs) = true := by
  simp only [isKnown, List.any_eq_true]
  exact ⟨(c, e), lookup_mem' _ _ _ h, isSubclass_refl _ _⟩

/-- Every value of the universe other than an instance is of a supported type; an instance is known only
    through the handler table. -/
theorem C20_known_iff (X : DumpCtx) (x : PyVal) :
    isKnown X x = true ↔ (∀ c fs, x ≠ .obj c fs) ∨
      (∃ c fs, x = .obj c fs ∧ ∃ e ∈ X.cfg.handlers, isSubclass X.env c e.1 = true) := by
  cases x <;> simp [isKnown]

/-- **Unsupported values are omitted.**  A stored field whose value is of neither a supported nor a handled
    type (an instance directly as a field value, no handler entry for its class or a base of it) is absent from
    the dumped form — while with an entry for its class in the handler table the field is present, with the
    handler's output as its value. -/
theorem C20_unsupported_omitted (X : DumpCtx) (sm ia : String) (ig : List PyVal) (c : String) (fs : List (String × PyVal))
    (d : ClassDef) (r : PyVal) (hh : handlerFor X.cfg (.obj c fs) = Option.none) (hc : X.env.lookup c = some d)
    (hf : fieldWise d sm = true) (hd : dump X sm ia ig (.obj c fs) = .ok r) :
    ∃ il attrs, ignoreListOf d fs ia ig = some il ∧
      r = .dict ((.str jcKey, .list [.str (emitName d), .list []]) :: attrs) ∧
      (∀ n x, fs.lookup n = some x → isKnown X x = false → lookupStr n attrs = Option.none) ∧
      (∀ n c' fs' h, fs.lookup n = some (.obj c' fs') → X.cfg.handlers.lookup c' = some (some h) →
        fieldKept X c fs il n (.obj c' fs') = true →
        ∃ y, X.H h (.obj c' fs') sm ia ig = .ok y ∧ lookupStr n attrs = some y) := by
  obtain ⟨il, attrs, hil, hr, hmem, hpres⟩ := C20_dumped_fields X sm ia ig c fs d r hh hc hf hd
  refine ⟨il, attrs, hil, hr, ?_, ?_⟩
  · intro n x hx hk
    cases hl : lookupStr n attrs with
    | none => rfl
    | some y =>
      exfalso
      obtain ⟨n', x', h1, h2, h3, _⟩ := hmem _ _ (lookupStr_mem attrs n y hl)
      simp only [PyVal.str.injEq] at h1
      subst h1
      rw [hx] at h2
      simp only [Option.some.injEq] at h2
      subst h2
      simp only [fieldKept, Bool.and_eq_true] at h3
      rw [hk] at h3
      exact absurd h3.1.2 (by simp)
  · intro n c' fs' h hx hh' hk
    obtain ⟨y, h1, h2⟩ := hpres n _ hx hk
    rw [C20_handler_step X sm ia ig _ h (by simp [handlerFor, typeName, hh'])] at h1
    exact ⟨y, h1, h2⟩

private theorem dumpFields_total (X : DumpCtx) (sm ia : String) (ig : List PyVal) (keep : List String) (il : List PyVal) :
    ∀ (fs : List (String × PyVal)),
    (∀ n x, (n, x) ∈ fs → isKnown X x = true →
      (∃ y, dump X sm ia ig x = .ok y) ∧ (inUndescribed X.env x il = false ∧ (eqRaisesOf X.env x = Option.none ∨ il = []))) →
    ∃ attrs, dumpFields X sm ia ig keep il fs = .ok attrs
  | [], _ => ⟨[], by simp [dumpFields, pure, Except.pure]⟩
  | (n, x) :: rest, h => by
    obtain ⟨attrs, ha⟩ := dumpFields_total X sm ia ig keep il rest (fun n' x' hm => h n' x' (List.mem_cons_of_mem _ hm))
    simp only [dumpFields]
    split
    · rename_i hcond
      simp only [Bool.and_eq_true] at hcond
      obtain ⟨⟨y, hy⟩, hund, hdec⟩ := h n x (by simp) hcond.2
      have hv : valueIn X.env x il = .ok (il.any (fun e => pyEq e x)) := by
        unfold valueIn
        rcases hdec with heq | hdec
        · simp [hund, heq, pure, Except.pure]
        · subst hdec
          simp [hund, pure, Except.pure]
      rw [hv]
      cases il.any (fun e => pyEq e x) with
      | true => exact ⟨attrs, ha⟩
      | false => exact ⟨(.str n, y) :: attrs, by simp [hy, ha, bind, Except.bind, pure, Except.pure]⟩
    · exact ⟨attrs, ha⟩

/-- **… rather than causing a failure.**  The field-wise dump of an instance *succeeds* as soon as the
    conditions that do not concern unsupported values hold — distinct stored names, no data attribute named like
    the serialisation method, a list of hashable entries as ignore list, every discovered field assigned, no
    field called "__jsonclass__" — and every stored value **of a known type** can itself be dumped.  Nothing is
    required of the values of unsupported types: they are neither dumped nor compared. -/
theorem C20_unsupported_no_failure (X : DumpCtx) (sm ia : String) (ig : List PyVal) (c : String)
    (fs : List (String × PyVal)) (d : ClassDef) (il : List PyVal)
    (hh : handlerFor X.cfg (.obj c fs) = Option.none) (hc : X.env.lookup c = some d) (hf : fieldWise d sm = true)
    (hnd : namesDistinct (fs.map (·.1)) = true)
    (hsm : (fs.lookup sm).isNone = true ∧ (d.classAttrs.lookup sm).isNone = true)
    (hil : ignoreListOf d fs ia ig = some il) (hcls : il.all (fun e => ignoreEntryClass e == 0) = true)
    (hset : ∀ n ∈ findFields X.env c (fs.map (·.1)), (fs.lookup n).isSome = true ∧ n ≠ jcKey)
    (hsup : ∀ n x, (n, x) ∈ fs → isKnown X x = true →
      (∃ y, dump X sm ia ig x = .ok y) ∧ (inUndescribed X.env x il = false ∧ (eqRaisesOf X.env x = Option.none ∨ il = []))) :
    ∃ attrs, dump X sm ia ig (.obj c fs) = .ok (.dict ((.str jcKey, .list [.str (emitName d), .list []]) :: attrs)) := by
  have hbean : dump X sm ia ig (.obj c fs) = dumpBean X sm ia ig d c (emitName d) fs := by
    unfold dump
    have h1 : (fs.lookup sm).isSome = false := by
      cases h : fs.lookup sm <;> simp_all
    have h2 : (d.classAttrs.lookup sm).isSome = false := by
      cases h : d.classAttrs.lookup sm <;> simp_all
    simp only [hh, hc, hnd, Bool.not_true, Bool.false_eq_true, ↓reduceIte, h1, h2, Bool.or_self]
    unfold fieldWise at hf
    cases hk : d.kind with
    | bean init => rfl
    | serial m b ps as base =>
      simp only [hk, bne_iff_ne, ne_eq] at hf
      have : (m == sm) = false := by simpa using hf
      simp [this]
    | enum ms => simp [hk] at hf
    | decimal => simp [hk] at hf
    | raising e => simp [hk] at hf
  unfold ignoreListOf at hil
  split at hil
  · rename_i own hown
    simp only [Option.some.injEq] at hil
    subst hil
    obtain ⟨attrs, ha⟩ := dumpFields_total X sm ia ig
      ((findFields X.env c (fs.map (·.1))).filter (fun n => !(own ++ ig).any (fun e => pyEq e (.str n)))) (own ++ ig) fs hsup
    refine ⟨attrs, ?_⟩
    rw [hbean]
    unfold dumpBean
    simp only [hown]
    have c1 : (own ++ ig).any (fun e => ignoreEntryClass e == 1) = false := by
      simp only [List.any_eq_false, List.all_eq_true] at hcls ⊢
      intro e he
      have := hcls e he
      simp only [beq_iff_eq] at this
      simp [this]
    have c2 : (own ++ ig).any (fun e => ignoreEntryClass e == 2) = false := by
      simp only [List.any_eq_false, List.all_eq_true] at hcls ⊢
      intro e he
      have := hcls e he
      simp only [beq_iff_eq] at this
      simp [this]
    have c3 : ((findFields X.env c (fs.map (·.1))).filter (fun n => !(own ++ ig).any (fun e => pyEq e (.str n)))).any
        (fun n => (fs.lookup n).isNone) = false := by
      simp only [List.any_eq_false, List.mem_filter]
      intro n hn
      have := (hset n hn.1).1
      cases h : fs.lookup n <;> simp_all
    have c4 : ((findFields X.env c (fs.map (·.1))).filter (fun n => !(own ++ ig).any (fun e => pyEq e (.str n)))).contains jcKey = false := by
      simp only [List.contains_eq_mem, decide_eq_false_iff_not, List.mem_filter, not_and]
      intro hm
      exact absurd rfl (hset _ hm).2
    simp only [c1, c2, c3, c4, Bool.false_eq_true, ↓reduceIte, ha, bind, Except.bind, pure, Except.pure]
  · simp at hil

/-- **A value of an unsupported type is never looked at more closely than its type.**  The field loop skips a
    stored field whose value is of neither a supported nor a handled type *before* the value is compared with the
    ignore-list entries: whatever the ignore list and whatever the value's `__eq__` does (`eqRaises` of its class),
    the loop continues with the remaining fields. -/
theorem C20_unsupported_not_compared (X : DumpCtx) (sm ia : String) (ig : List PyVal) (keep : List String) (il : List PyVal)
    (n : String) (x : PyVal) (rest : List (String × PyVal)) (hk : isKnown X x = false) :
    dumpFields X sm ia ig keep il ((n, x) :: rest) = dumpFields X sm ia ig keep il rest := by
  simp [dumpFields, hk]

/-- The model does describe hostile comparisons (the previous theorem is not true by omission): a kept field whose
    value is of a *handled* type with a hostile `__eq__` makes the field loop fail with the exception class of the
    comparison as soon as the ignore list is not empty — as `attr_value not in ignore_list` does. -/
theorem C20_hostile_known_raises (X : DumpCtx) (sm ia : String) (ig : List PyVal) (keep : List String) (il : List PyVal)
    (n : String) (x : PyVal) (rest : List (String × PyVal)) (exc : String) (hkeep : keep.contains n = true)
    (hk : isKnown X x = true) (hdec : inUndescribed X.env x il = false) (he : eqRaisesOf X.env x = some exc) (hne : il ≠ []) :
    dumpFields X sm ia ig keep il ((n, x) :: rest) = raise exc := by
  have hne' : il.isEmpty = false := by cases il <;> simp_all
  have hmem : n ∈ keep := by simpa using hkeep
  simp [dumpFields, hmem, hk, valueIn, hdec, he, hne', raise]

/-- … and with an empty ignore list nothing is compared: the hostile value of a handled type is dumped. -/
theorem C20_hostile_known_empty_list (X : DumpCtx) (sm ia : String) (ig : List PyVal) (keep : List String)
    (n : String) (x : PyVal) (rest : List (String × PyVal)) (hkeep : keep.contains n = true) (hk : isKnown X x = true) :
    dumpFields X sm ia ig keep [] ((n, x) :: rest) =
      (do let y ← dump X sm ia ig x
          let ys ← dumpFields X sm ia ig keep [] rest
          pure ((.str n, y) :: ys)) := by
  have hmem : n ∈ keep := by simpa using hkeep
  simp [dumpFields, hmem, hk, valueIn, pure, Except.pure, bind, Except.bind]

/- ---------- the configured names ---------- -/

/-- **Argument normalisation.**  `dump(obj, serialize_method, ignore_attribute, ignore, config)` consults the
    explicit name when it is given and truthy, else the configured one (`x or config.x`); `ignore or []`. -/
theorem C20_names_defaults (X : DumpCtx) (sm ia : Option String) (ig : Option (List PyVal)) (v : PyVal) :
    dumpTop X sm ia ig v =
      dump X (match sm with | some s => if s = "" then X.cfg.serializeMethod else s | Option.none => X.cfg.serializeMethod)
             (match ia with | some s => if s = "" then X.cfg.ignoreAttribute else s | Option.none => X.cfg.ignoreAttribute)
             (match ig with | some l => l | Option.none => []) v := by
  unfold dumpTop orStr
  cases sm <;> cases ia <;> cases ig <;> simp <;> (repeat' split) <;> simp_all

/-- With no explicit argument the names are those of the configuration, whatever they are. -/
theorem C20_names_config (X : DumpCtx) (v : PyVal) :
    dumpTop X Option.none Option.none Option.none v = dump X X.cfg.serializeMethod X.cfg.ignoreAttribute [] v := rfl

section frame
variable (X : DumpCtx) (a b : String) (sm ia : String) (ig : List PyVal)

/-- The same context with other configured names. -/
def withNames (X : DumpCtx) (a b : String) : DumpCtx :=
  { X with cfg := { X.cfg with serializeMethod := a, ignoreAttribute := b } }

mutual
  private theorem frameV : ∀ (v : PyVal), dump (withNames X a b) sm ia ig v = dump X sm ia ig v
    | .none => by unfold dump; rfl
    | .bool _ => by unfold dump; rfl
    | .int _ => by unfold dump; rfl
    | .float _ => by unfold dump; rfl
    | .str _ => by unfold dump; rfl
    | .list xs => by
      have := frameL xs
      unfold dump; simp only [this]; rfl
    | .tuple xs => by
      have := frameL xs
      unfold dump; simp only [this]; rfl
    | .set xs => by
      have := frameL xs
      unfold dump; simp only [this]; rfl
    | .frozenset xs => by
      have := frameL xs
      unfold dump; simp only [this]; rfl
    | .dict kvs => by
      have := frameK kvs
      unfold dump; simp only [this]; rfl
    | .obj c fs => by
      have hF := fun keep il => frameF keep il fs
      have hB : ∀ d jc, dumpBean (withNames X a b) sm ia ig d c jc fs = dumpBean X sm ia ig d c jc fs := by
        intro d jc
        unfold dumpBean
        simp only [hF]
        rfl
      unfold dump
      simp only [hB]
      rfl
  private theorem frameL : ∀ (xs : List PyVal), dumpList (withNames X a b) sm ia ig xs = dumpList X sm ia ig xs
    | [] => by unfold dumpList; rfl
    | x :: xs => by
      have h1 := frameV x
      have h2 := frameL xs
      unfold dumpList; simp only [h1, h2]
  private theorem frameK : ∀ (xs : List (PyVal × PyVal)), dumpKVs (withNames X a b) sm ia ig xs = dumpKVs X sm ia ig xs
    | [] => by unfold dumpKVs; rfl
    | (k, x) :: xs => by
      have h1 := frameV x
      have h2 := frameK xs
      unfold dumpKVs; simp only [h1, h2]
  private theorem frameF : ∀ (keep : List String) (il : List PyVal) (fs : List (String × PyVal)),
      dumpFields (withNames X a b) sm ia ig keep il fs = dumpFields X sm ia ig keep il fs
    | _, _, [] => by unfold dumpFields; rfl
    | keep, il, (n, x) :: rest => by
      have h1 := frameV x
      have h2 := frameF keep il rest
      unfold dumpFields; simp only [h1, h2]; rfl
end

/-- **Only the names in force are consulted, at every depth.**  Once the serialize-method and ignore-attribute
    names are fixed (explicit arguments, or the configuration's at the top-level call), the result of `dump`
    does not depend on what the configuration says: the recursion never goes back to the configured names
    (nor, a fortiori, to the library defaults "_serialize" / "_ignore"). -/
theorem C20_names_frame (v : PyVal) : dump (withNames X a b) sm ia ig v = dump X sm ia ig v := frameV X a b sm ia ig v

end frame

/-- **Serialisation method.**  An instance of a class that defines a method `m` is serialised through that
    method exactly when `m` is the name in force; with any other name in force (in particular when the
    configuration names another method than the default one the class defines) it is dumped field-wise.
    Through the method: the attributes it returns are emitted verbatim, except those named by the ignore lists. -/
theorem C20_names_method (X : DumpCtx) (sm ia : String) (ig : List PyVal) (c : String) (fs : List (String × PyVal))
    (d : ClassDef) (m : String) (byDict : Bool) (ps as : List String) (base : List (String × PyVal))
    (hh : handlerFor X.cfg (.obj c fs) = Option.none) (hc : X.env.lookup c = some d)
    (hk : d.kind = .serial m byDict ps as base) (hnd : namesDistinct (fs.map (·.1)) = true)
    (hsm : (fs.lookup sm).isNone = true ∧ (d.classAttrs.lookup sm).isNone = true) :
    (m ≠ sm → dump X sm ia ig (.obj c fs) = dumpBean X sm ia ig d c (emitName d) fs) ∧
    (m = sm → ∀ pvs avs own, lookupAll fs ps = some pvs → lookupAll fs as = some avs →
      as.contains jcKey = false → namesDistinct as = true → getAttrD d fs ia (.list []) = .list own →
      dump X sm ia ig (.obj c fs) =
        .ok (.dict ((.str jcKey, .list [.str (emitName d), serialParams byDict ps pvs]) ::
            ((as.zip avs).filter fun (k, _) => !nameIgnored (own ++ ig) k).map fun (k, x) => (PyVal.str k, x)))) := by
  have h1 : (fs.lookup sm).isSome = false := by cases h : fs.lookup sm <;> simp_all
  have h2 : (d.classAttrs.lookup sm).isSome = false := by cases h : d.classAttrs.lookup sm <;> simp_all
  constructor
  · intro hne
    have : (m == sm) = false := by simpa using hne
    unfold dump
    simp [hh, hc, hnd, h1, h2, hk, this]
  · intro he pvs avs own hp ha hj hda hown
    subst he
    unfold dump
    have hj' : jcKey ∉ as := by simpa using hj
    simp [hh, hc, hnd, h1, h2, hk, hp, ha, hj', hda, hown, serialParams, pure, Except.pure]

/-- The attributes an object's serialisation method returns are emitted with the very values it returned: an
    attribute whose name is not in the ignore lists is found under its name with the stored value itself —
    not its dump (a tuple stays a tuple, an instance stays an instance, no handler is applied). -/
theorem C20_method_attrs_verbatim (X : DumpCtx) (sm ia : String) (ig : List PyVal) (c : String) (fs : List (String × PyVal))
    (d : ClassDef) (r : PyVal) (m : String) (byDict : Bool) (ps as : List String) (base : List (String × PyVal))
    (hh : handlerFor X.cfg (.obj c fs) = Option.none) (hc : X.env.lookup c = some d)
    (hk : d.kind = .serial m byDict ps as base) (hm : m = sm) (hd : dump X sm ia ig (.obj c fs) = .ok r) :
    ∃ desc attrs own avs, r = .dict ((.str jcKey, desc) :: attrs) ∧ getAttrD d fs ia (.list []) = .list own ∧
      lookupAll fs as = some avs ∧
      ∀ n x, (as.zip avs).lookup n = some x → PyVal.str n ∉ own ++ ig → lookupStr n attrs = some x := by
  obtain ⟨pvs, avs, own, _, ha, hown, hr⟩ := dump_viaMethod X sm ia ig hh hc hk hm hd
  refine ⟨_, _, own, avs, hr, hown, ha, ?_⟩
  intro n x hl hn
  apply lookupStr_filtered_some _ _ _ _ _ hl
  cases h : nameIgnored (own ++ ig) n with
  | false => rfl
  | true => exact absurd ((nameIgnored_iff _ _).mp h) hn

/-- **Ignore attribute.**  Only the attribute called `ia` is read: with no stored and no class attribute of
    that name the object's own ignore list is empty — whatever is stored under any other name, such as the
    library default "_ignore" when the configuration says "_skip" (that attribute is then an ordinary field). -/
theorem C20_names_ignore_attribute (d : ClassDef) (fs : List (String × PyVal)) (ia : String) (ig : List PyVal)
    (h1 : fs.lookup ia = Option.none) (h2 : d.classAttrs.lookup ia = Option.none) :
    ignoreListOf d fs ia ig = some ig := (C20_ignore_sources d fs ia ig []).2.2 h1 h2

/- ---------- non-vacuity ---------- -/

private def exEnv20 : ClassEnv := [
  ("Sub", { module := "pkg", name := "Sub", bases := ["Base"], kind := .bean [("a", .int 0), ("b", .int 0)],
             classAttrs := [("_skip", .list [.str "a"])] }),
  ("Base", { module := "pkg", name := "Base", kind := .bean [("a", .int 0)], classAttrs := [("_skip", .list [.str "a"])] }),
  ("Ser", { module := "pkg", name := "Ser", kind := .serial "_serialize" false ["p"] [] [] }),
  ("Holder", { module := "__main__", name := "Holder", kind := .bean [("x", .none), ("t", .none), ("_ignore", .list [])] })]

/-- Handlers for the base class, for `tuple` and a `None` entry for `str`; ids interpreted as: 0 ↦ "H0",
    1 ↦ [type name, serialize_method, ignore_attribute, ignore]. -/
private def exX20 : DumpCtx :=
  { env := exEnv20,
    cfg := { serializeMethod := "to_json", ignoreAttribute := "_skip",
             handlers := [("Base", some 0), ("tuple", some 1), ("str", Option.none)] },
    H := fun
      | 0 => fun _ _ _ _ => pure (.str "H0")
      | _ => fun v sm ia ig => pure (.list [.str v.typeName, .str sm, .str ia, .list ig]) }

private def exVal20 : PyVal :=
  .list [.obj "Holder" [("x", .obj "Base" [("a", .int 1)]), ("t", .tuple [.int 1]), ("_ignore", .list [.str "t"]),
                        ("s", .obj "Sub" [("a", .int 1), ("b", .str "z")]), ("q", .obj "Ser" [("p", .int 5)]), ("gone", .int 3)]]

/-- The handled field values are replaced (the tuple's handler sees the configured names and the `ignore`
    argument), the subclass instance gets built-in handling (its inherited class-level ignore list `_skip` removes
    "a"), "_ignore" is not the configured ignore attribute and is dumped as a field, the instance of an unhandled
    class is omitted, "gone" is removed by the `ignore` argument; `Ser` defines "_serialize" but "to_json" is in
    force: it would be dumped field-wise — here it is omitted as an unsupported field value. -/
example : dumpTop exX20 Option.none Option.none (some [.str "gone"]) exVal20 =
    .ok (.list [.dict [(.str "__jsonclass__", .list [.str "Holder", .list []]),
      (.str "x", .str "H0"),
      (.str "t", .list [.str "tuple", .str "to_json", .str "_skip", .list [.str "gone"]]),
      (.str "_ignore", .list [.str "t"]),
      (.str "s", .dict [(.str "__jsonclass__", .list [.str "pkg.Sub", .list []]), (.str "b", .str "z")])]]) := by
  simp [dumpTop, orStr, dump, dumpList, dumpBean, dumpFields, dumpKVs, handlerFor, exX20, exVal20, exEnv20, typeName,
    List.lookup, namesDistinct, emitName, getAttrD, findFields, slotsFinder, hasDict, ignoreEntryClass, pyEq, numEq, asInt?,
    isKnown, isSubclass, valueIn, inUndescribed, isNonEmptyTuple, eqRaisesOf, isDecimalObj, jcKey, bind, Except.bind, pure, Except.pure]

example : walk exX20 "to_json" "_skip" [.str "gone"] exVal20 [.item 0, .field "t"] = some (.tuple [.int 1]) := by
  decide +kernel
example : handlerFor exX20.cfg (.tuple [.int 1]) = some 1 := by decide +kernel
example : isSubclass exEnv20 "Sub" "Base" = true := by decide +kernel
example : fieldWise { module := "pkg", name := "Ser", kind := .serial "_serialize" false ["p"] [] [] } "to_json" = true := by
  decide +kernel
example : walk exX20 "to_json" "_skip" [.str "gone"] exVal20 [.item 0, .field "q"] = Option.none := by decide +kernel
example : isKnown exX20 (.obj "Ser" [("p", .int 5)]) = false := by decide +kernel

/-- Non-vacuity of the serialisation-method case of `C20_ignore`: `SerI` defines the method in force ("to_json"),
    its class-level ignore list names the attribute "secret", the call's `ignore` argument names "tmp": neither is
    transmitted, "keep" is — with the tuple the method returned (not converted to a list). -/
private def exSerI : ClassDef :=
  { module := "pkg", name := "SerI", kind := .serial "to_json" false ["p"] ["secret", "keep", "tmp"] [],
    classAttrs := [("_skip", .list [.str "secret"])] }
example : dump { exX20 with env := [("SerI", exSerI)] } "to_json" "_skip" [.str "tmp"]
      (.obj "SerI" [("p", .int 5), ("secret", .str "s3"), ("keep", .tuple [.int 1]), ("tmp", .int 0)]) =
    .ok (.dict [(.str "__jsonclass__", .list [.str "pkg.SerI", .list [.int 5]]), (.str "keep", .tuple [.int 1])]) := by
  simp [dump, handlerFor, exX20, exSerI, typeName, List.lookup, namesDistinct, emitName, getAttrD, lookupAll, nameIgnored,
    pyEq, numEq, asInt?, jcKey, pure, Except.pure]
example : viaMethod exSerI "to_json" = true ∧ fieldWise exSerI "to_json" = false := by decide +kernel

/-- Non-vacuity of `C20_unsupported_no_failure`: an object holding an instance of an unhandled class directly in
    a field (nothing is required of it) next to a supported value. -/
example : ∃ attrs, dump exX20 "to_json" "_skip" [] (.obj "Holder" [("x", .obj "Ser" [("p", .int 5)]), ("t", .int 1)]) =
    .ok (.dict ((.str jcKey, .list [.str "Holder", .list []]) :: attrs)) :=
  C20_unsupported_no_failure exX20 "to_json" "_skip" [] "Holder" _
    { module := "__main__", name := "Holder", kind := .bean [("x", .none), ("t", .none), ("_ignore", .list [])] } []
    (by decide +kernel) (by simp [exX20, exEnv20, List.lookup]) (by decide +kernel) (by decide +kernel) (by decide +kernel)
    (by decide +kernel) (by decide +kernel) (by decide +kernel)
    (by
      intro n x hm hk
      simp only [List.mem_cons, Prod.mk.injEq, List.mem_nil_iff, or_false] at hm
      rcases hm with ⟨rfl, rfl⟩ | ⟨rfl, rfl⟩
      · exact absurd hk (by decide +kernel)
      · exact ⟨⟨.int 1, by unfold dump; simp [handlerFor, exX20, typeName, List.lookup, pure, Except.pure]⟩, by simp, Or.inr rfl⟩)

/- ---------- the configuration that reaches `dump` through `Config.copy()` ---------- -/

section copy
open JRV.ConfigCopy

/-- **`Config.copy()` passes every attribute on.**  Each of the eight attributes `__init__` defines has, in the copy,
    the value it has in the original (the two dictionaries: the same entries) — with one exception the constructor
    makes: a `user_agent` that a program set to `None` becomes the default user agent. -/
theorem C20_copy_fields (c : Cfg) :
    (copy c).version = c.version ∧ (copy c).useJsonclass = c.useJsonclass ∧ (copy c).contentType = c.contentType ∧
    (copy c).classes = c.classes ∧ (copy c).serializeMethod = c.serializeMethod ∧
    (copy c).ignoreAttribute = c.ignoreAttribute ∧ (copy c).handlers = c.handlers ∧
    (copy c).userAgent = agentOr c.userAgent := by
  simp [copy, init]

/-- A copy of a configuration whose user agent is set is equal to it, attribute by attribute. -/
theorem C20_copy_eq (c : Cfg) (h : c.userAgent ≠ .none) : copy c = c := by
  cases c with
  | mk v uj ct ua cls sm ia hs =>
    cases ua <;> simp_all [copy, init, agentOr]

/-- The 1.0-compatibility configuration differs from the copy in `version` only. -/
theorem C20_compat_fields (c : Cfg) :
    (compat c).version = .float ⟨false, 1, 0⟩ ∧ (compat c).useJsonclass = c.useJsonclass ∧
    (compat c).classes = c.classes ∧ (compat c).serializeMethod = c.serializeMethod ∧
    (compat c).ignoreAttribute = c.ignoreAttribute ∧ (compat c).handlers = c.handlers ∧
    (compat c).contentType = c.contentType := by
  simp [compat, copy, init]

/-- **The names and the handler table `dump` consults are the configured ones on the compatibility path too.**
    What `jsonclass.dump` reads of the per-request configuration of a JSON-RPC 1.0 request served by a 2.0 server
    is what it reads of the server's configuration. -/
theorem C20_compat_dumpCfg (c : Cfg) : dumpCfg? (compat c) = dumpCfg? c := by
  simp [dumpCfg?, compat, copy, init]

/-- … hence the dumped form of every value is the same through the per-request copy as through the server's own
    configuration object, for every handler interpretation, class environment and explicit argument. -/
theorem C20_compat_same_dump (c : Cfg) (env : ClassEnv) (H : Nat → HandlerFn) (cfg cfg' : DumpCfg)
    (h : dumpCfg? c = some cfg) (h' : dumpCfg? (compat c) = some cfg')
    (sm ia : Option String) (ig : Option (List PyVal)) (v : PyVal) :
    dumpTop { env := env, cfg := cfg', H := H } sm ia ig v = dumpTop { env := env, cfg := cfg, H := H } sm ia ig v := by
  rw [C20_compat_dumpCfg, h] at h'
  simp only [Option.some.injEq] at h'
  subst h'
  rfl

/-- The table `copyFields` (compared with the source by `C20_gen_configCopyFields`) covers exactly the attributes
    `__init__` defines (`C20_gen_configInitFields`), each "same" or "copied". -/
theorem C20_copy_table_complete :
    copyFields.map (·.1) = initFields ∧ copyFields.all (fun e => e.2 == "same" || e.2 == "copied") = true := by
  decide

/-- Non-vacuity: a configuration with a custom method name, a custom ignore-attribute name, a handler table and a
    local class; its compatibility configuration is read by `dump` in the same way … -/
private def exCfg : Cfg :=
  { ConfigCopy.default with serializeMethod := .str "_to_json", ignoreAttribute := .str "_skip",
                            handlers := [("tuple", some 1), ("str", Option.none)], classes := [("Account", "c0")] }
example : dumpCfg? (compat exCfg) =
    some { serializeMethod := "_to_json", ignoreAttribute := "_skip", handlers := [("tuple", some 1), ("str", Option.none)] } := by
  simp [dumpCfg?, compat, copy, init, exCfg, ConfigCopy.default]
example : exCfg.userAgent ≠ .none := by simp [exCfg, ConfigCopy.default, init, agentOr]
/-- … whereas a `copy` that forgets `serialize_method` (the constructor's default "_serialize" applies) is read
    differently: the theorems above are statements about the function the code implements. -/
private def forgetfulCopy (c : Cfg) : Cfg :=
  let n := init c.version c.contentType c.userAgent c.useJsonclass (.str "_serialize") c.ignoreAttribute Option.none
  { n with classes := c.classes, handlers := c.handlers }
example : (dumpCfg? (forgetfulCopy exCfg)).map (·.serializeMethod) = some "_serialize" ∧
    (dumpCfg? exCfg).map (·.serializeMethod) = some "_to_json" := by
  simp [dumpCfg?, forgetfulCopy, init, exCfg, ConfigCopy.default]

end copy

/-- Non-vacuity of the hostile-comparison theorems: `Pt` compares only with its own kind (`__eq__` raises
    AttributeError on a string), `Shape` has the class-level ignore list ["cache"] and holds a `Pt` directly in a
    field.  Unhandled, the `Pt` is omitted and the dump succeeds although the ignore list is not empty; with a
    handler registered for `Pt` the comparison is made and raises. -/
private def exEnvH : ClassEnv := [
  ("Shape", { module := "__main__", name := "Shape", kind := .bean [("name", .str ""), ("cache", .str ""), ("origin", .none)],
              classAttrs := [("_ignore", .list [.str "cache"])] }),
  ("Pt", { module := "__main__", name := "Pt", kind := .bean [("x", .int 0)], eqRaises := some "AttributeError" })]
private def exShape : PyVal :=
  .obj "Shape" [("name", .str "square"), ("cache", .str "do-not-send"), ("origin", .obj "Pt" [("x", .int 1)])]
private def exXH (hs : List (String × Option Nat)) : DumpCtx :=
  { env := exEnvH, cfg := { handlers := hs }, H := fun _ _ _ _ _ => pure (.str "H") }

example : dump (exXH []) "_serialize" "_ignore" [] exShape =
    .ok (.dict [(.str "__jsonclass__", .list [.str "Shape", .list []]), (.str "name", .str "square")]) := by
  simp [dump, dumpBean, dumpFields, handlerFor, exXH, exShape, exEnvH, typeName, List.lookup, namesDistinct, emitName,
    getAttrD, findFields, slotsFinder, hasDict, ignoreEntryClass, pyEq, isKnown, isSubclass, valueIn, inUndescribed, eqRaisesOf,
    isDecimalObj, jcKey, bind, Except.bind, pure, Except.pure]
example : dump (exXH [("Pt", some 0)]) "_serialize" "_ignore" [] exShape = raise "AttributeError" := by
  simp [dump, dumpBean, dumpFields, handlerFor, exXH, exShape, exEnvH, typeName, List.lookup, namesDistinct, emitName,
    getAttrD, findFields, slotsFinder, hasDict, ignoreEntryClass, pyEq, isKnown, isSubclass, valueIn, inUndescribed, eqRaisesOf,
    isDecimalObj, jcKey, bind, Except.bind, pure, Except.pure, raise]
example : isKnown (exXH []) (.obj "Pt" [("x", .int 1)]) = false ∧ eqRaisesOf exEnvH (.obj "Pt" [("x", .int 1)]) = some "AttributeError" := by
  decide +kernel

/- ---------- one Config object over time (JRV.Model.ConfigHistory) ---------- -/

section history
open JRV.ConfigHistory

private theorem lookup_store (k k' : String) (v : Option Nat) : ∀ t : Table,
    (store k v t).lookup k' = if k' == k then some v else t.lookup k'
  | [] => by
    by_cases h : k' == k <;> simp [store, List.lookup, h]
  | (a, x) :: r => by
    have ih := lookup_store k k' v r
    by_cases ha : a == k
    · by_cases h : k' == k
      · have : k' == a := by simp_all
        simp [store, ha, List.lookup, h, this]
      · have : (k' == a) = false := by
          cases hka : k' == a <;> simp_all
        simp [store, ha, List.lookup, h, this]
    · by_cases hka : k' == a
      · have : (k' == k) = false := by
          cases h : k' == k <;> simp_all
        simp [store, ha, List.lookup, hka, this]
      · simp [store, ha, List.lookup, hka, ih]

private theorem lookup_erase (k k' : String) : ∀ t : Table,
    (erase k t).lookup k' = if k' == k then Option.none else t.lookup k'
  | [] => by simp [erase, List.lookup]
  | (a, x) :: r => by
    have ih := lookup_erase k k' r
    by_cases ha : a == k
    · by_cases h : k' == k
      · simp [erase, ha, h, ih]
      · have : (k' == a) = false := by
          cases hka : k' == a <;> simp_all
        simp [erase, ha, List.lookup, h, this, ih]
    · by_cases hka : k' == a
      · have : (k' == k) = false := by
          cases h : k' == k <;> simp_all
        simp [erase, ha, List.lookup, hka, this]
      · simp [erase, ha, List.lookup, hka, ih]

/-- The observation a statement makes depends on the state it is made in, and on nothing else: the `i`-th statement of
    a history returns what it returns in the state the statements before it leave. -/
theorem C20_history_reads_current_state (env : ClassEnv) (H : Nat → HandlerFn) : ∀ (pre : List Op) (s : State) (op : Op) (post : List Op),
    (run env H s (pre ++ op :: post))[pre.length]? = some (observe env H (final s pre) op)
  | [], s, op, post => by simp [run, final]
  | p :: pre, s, op, post => by
    have := C20_history_reads_current_state env H pre (mutate s p) op post
    simpa [run, final] using this

private theorem mutate_dump (s : State) (op : Op) (h : op.isDump = true) : mutate s op = s := by
  cases op <;> simp_all [Op.isDump, mutate]

/-- Dumps leave no trace: the object after a history is the object after its stores alone. -/
theorem C20_history_dumps_inert : ∀ (ops : List Op) (s : State), final s ops = final s (ops.filter (fun o => !o.isDump))
  | [], s => rfl
  | op :: ops, s => by
    have ih := C20_history_dumps_inert ops
    by_cases h : op.isDump = true
    · simp [final, List.filter, h, mutate_dump s op h] at ih ⊢
      exact ih s
    · simp at h
      simp [final, List.filter, h] at ih ⊢
      exact ih (mutate s op)

theorem C20_history_handler_in_force (t : String) : ∀ (ops : List Op) (s : State),
    (final s ops).cfg.handlers.lookup t = lastHandler t (s.cfg.handlers.lookup t) ops
  | [], s => rfl
  | op :: ops, s => by
    have ih := C20_history_handler_in_force t ops (mutate s op)
    simp only [final, List.foldl] at ih ⊢
    rw [ih]
    cases op <;> simp [mutate, lastHandler, lookup_store, lookup_erase]

theorem C20_history_method_in_force : ∀ (ops : List Op) (s : State),
    (final s ops).cfg.serializeMethod = lastMethod s.cfg.serializeMethod ops
  | [], s => rfl
  | op :: ops, s => by
    have ih := C20_history_method_in_force ops (mutate s op)
    simp only [final, List.foldl] at ih ⊢
    rw [ih]
    cases op <;> simp [mutate, lastMethod]



theorem C20_history_ignore_attribute_in_force : ∀ (ops : List Op) (s : State),
    (final s ops).cfg.ignoreAttribute = lastIgnoreAttr s.cfg.ignoreAttribute ops
  | [], s => rfl
  | op :: ops, s => by
    have ih := C20_history_ignore_attribute_in_force ops (mutate s op)
    simp only [final, List.foldl] at ih ⊢
    rw [ih]
    cases op <;> simp [mutate, lastIgnoreAttr]

theorem C20_history_use_jsonclass_in_force : ∀ (ops : List Op) (s : State),
    (final s ops).useJsonclass = lastUseJsonclass s.useJsonclass ops
  | [], s => rfl
  | op :: ops, s => by
    have ih := C20_history_use_jsonclass_in_force ops (mutate s op)
    simp only [final, List.foldl] at ih ⊢
    rw [ih]
    cases op <;> simp [mutate, lastUseJsonclass]

private theorem any_keys_iff (f : String → Bool) : ∀ (l : Table),
    l.any (fun h => f h.1) = true ↔ ∃ k, (l.lookup k).isSome = true ∧ f k = true
  | [] => by simp [List.lookup]
  | (a, x) :: r => by
    have ih := any_keys_iff f r
    constructor
    · intro h
      simp only [List.any_cons, Bool.or_eq_true] at h
      rcases h with h | h
      · exact ⟨a, by simp [List.lookup], h⟩
      · obtain ⟨k, hk, hf⟩ := ih.mp h
        refine ⟨k, ?_, hf⟩
        by_cases hka : k == a <;> simp [List.lookup, hka, hk]
    · rintro ⟨k, hk, hf⟩
      simp only [List.any_cons, Bool.or_eq_true]
      by_cases hka : k == a
      · left
        have : k = a := by simpa using hka
        simpa [this] using hf
      · right
        apply ih.mpr
        refine ⟨k, ?_, hf⟩
        simpa [List.lookup, hka] using hk

private theorem any_keys_congr (f : String → Bool) (l l' : Table) (h : ∀ k, l'.lookup k = l.lookup k) :
    l'.any (fun e => f e.1) = l.any (fun e => f e.1) := by
  have h1 := any_keys_iff f l
  have h2 := any_keys_iff f l'
  simp only [h] at h2
  exact Bool.eq_iff_iff.mpr (h2.trans h1.symm)

/-- The same context with another handler table. -/
def withTable (X : DumpCtx) (t : Table) : DumpCtx := { X with cfg := { X.cfg with handlers := t } }

section ext
variable (X : DumpCtx) (t : Table) (ht : ∀ k, t.lookup k = X.cfg.handlers.lookup k) (sm ia : String) (ig : List PyVal)
include ht

private theorem extHF (v : PyVal) : handlerFor (withTable X t).cfg v = handlerFor X.cfg v := by
  simp [handlerFor, withTable, ht]

private theorem extK (v : PyVal) : isKnown (withTable X t) v = isKnown X v := by
  cases v <;> simp only [isKnown]
  exact any_keys_congr _ _ _ ht

mutual
  private theorem extV : ∀ (v : PyVal), dump (withTable X t) sm ia ig v = dump X sm ia ig v
    | .none => by unfold dump; rw [extHF X t ht]; rfl
    | .bool _ => by unfold dump; rw [extHF X t ht]; rfl
    | .int _ => by unfold dump; rw [extHF X t ht]; rfl
    | .float _ => by unfold dump; rw [extHF X t ht]; rfl
    | .str _ => by unfold dump; rw [extHF X t ht]; rfl
    | .list xs => by
      have := extL xs
      unfold dump; rw [extHF X t ht]; simp only [this]; rfl
    | .tuple xs => by
      have := extL xs
      unfold dump; rw [extHF X t ht]; simp only [this]; rfl
    | .set xs => by
      have := extL xs
      unfold dump; rw [extHF X t ht]; simp only [this]; rfl
    | .frozenset xs => by
      have := extL xs
      unfold dump; rw [extHF X t ht]; simp only [this]; rfl
    | .dict kvs => by
      have := extK' kvs
      unfold dump; rw [extHF X t ht]; simp only [this]; rfl
    | .obj c fs => by
      have hF := fun keep il => extF keep il fs
      have hB : ∀ d jc, dumpBean (withTable X t) sm ia ig d c jc fs = dumpBean X sm ia ig d c jc fs := by
        intro d jc
        unfold dumpBean
        simp only [hF]
        rfl
      unfold dump
      rw [extHF X t ht]
      simp only [hB]
      rfl
  private theorem extL : ∀ (xs : List PyVal), dumpList (withTable X t) sm ia ig xs = dumpList X sm ia ig xs
    | [] => by unfold dumpList; rfl
    | x :: xs => by
      have h1 := extV x
      have h2 := extL xs
      unfold dumpList; simp only [h1, h2]
  private theorem extK' : ∀ (xs : List (PyVal × PyVal)), dumpKVs (withTable X t) sm ia ig xs = dumpKVs X sm ia ig xs
    | [] => by unfold dumpKVs; rfl
    | (k, x) :: xs => by
      have h1 := extV x
      have h2 := extK' xs
      unfold dumpKVs; simp only [h1, h2]
  private theorem extF : ∀ (keep : List String) (il : List PyVal) (fs : List (String × PyVal)),
      dumpFields (withTable X t) sm ia ig keep il fs = dumpFields X sm ia ig keep il fs
    | _, _, [] => by unfold dumpFields; rfl
    | keep, il, (n, x) :: rest => by
      have h1 := extV x
      have h2 := extF keep il rest
      unfold dumpFields; rw [extK X t ht]; simp only [h1, h2]; rfl
end
end ext



theorem C20_history_table_extensional (X : DumpCtx) (t : Table) (ht : ∀ k, t.lookup k = X.cfg.handlers.lookup k)
    (sm ia : String) (ig : List PyVal) (v : PyVal) : dump (withTable X t) sm ia ig v = dump X sm ia ig v :=
  extV X t ht sm ia ig v

private theorem observe_congr (env : ClassEnv) (H : Nat → HandlerFn) (s s' : State) (op : Op)
    (hm : s'.cfg.serializeMethod = s.cfg.serializeMethod) (hi : s'.cfg.ignoreAttribute = s.cfg.ignoreAttribute)
    (hj : s'.useJsonclass = s.useJsonclass) (hh : ∀ t, s'.cfg.handlers.lookup t = s.cfg.handlers.lookup t) :
    observe env H s' op = observe env H s op := by
  have hX : ({ env := env, cfg := s'.cfg, H := H } : DumpCtx) = withTable { env := env, cfg := s.cfg, H := H } s'.cfg.handlers := by
    simp only [withTable]
    congr 1
    cases hc : s'.cfg
    simp_all
  have key : ∀ sm ia ig v, dumpTop { env := env, cfg := s'.cfg, H := H } sm ia ig v
      = dumpTop { env := env, cfg := s.cfg, H := H } sm ia ig v := by
    intro sm ia ig v
    unfold dumpTop
    rw [hX]
    simp only [withTable, hm, hi]
    exact C20_history_table_extensional { env := env, cfg := s.cfg, H := H } s'.cfg.handlers hh _ _ _ v
  cases op <;> simp [observe, key, hj]

/-- **The second dump is the dump by a fresh Config with the final settings.**  Whatever was done with the object
    before — dumps included — a dump made after the statements `pre` returns what the same call returns with ANY
    configuration `s'` that has the settings the stores of `pre` leave (`last…` skip the dumps; the handler table
    entry by entry, in whatever order it was filled).  `s'` is "a fresh Config with the final settings". -/
theorem C20_history_dump_fresh (env : ClassEnv) (H : Nat → HandlerFn) (s s' : State) (pre post : List Op) (op : Op)
    (hm : s'.cfg.serializeMethod = lastMethod s.cfg.serializeMethod pre)
    (hi : s'.cfg.ignoreAttribute = lastIgnoreAttr s.cfg.ignoreAttribute pre)
    (hj : s'.useJsonclass = lastUseJsonclass s.useJsonclass pre)
    (hh : ∀ t, s'.cfg.handlers.lookup t = lastHandler t (s.cfg.handlers.lookup t) pre) :
    (run env H s (pre ++ op :: post))[pre.length]? = some (observe env H s' op) := by
  rw [C20_history_reads_current_state]
  congr 1
  apply (observe_congr env H (final s pre) s' op _ _ _ _).symm
  · rw [hm, C20_history_method_in_force]
  · rw [hi, C20_history_ignore_attribute_in_force]
  · rw [hj, C20_history_use_jsonclass_in_force]
  · intro t; rw [hh, C20_history_handler_in_force]

private theorem lastHandler_append (t : String) : ∀ (a b : List Op) (d : Option (Option Nat)),
    lastHandler t d (a ++ b) = lastHandler t (lastHandler t d a) b
  | [], b, d => rfl
  | op :: a, b, d => by simp only [List.cons_append, lastHandler]; exact lastHandler_append t a b _

private theorem lastHandler_untouched (t : String) : ∀ (mid : List Op) (d : Option (Option Nat)),
    mid.all (fun o => !o.touchesHandler t) = true → lastHandler t d mid = d
  | [], d, _ => rfl
  | op :: mid, d, h => by
    simp only [List.all_cons, Bool.and_eq_true, Bool.not_eq_true'] at h
    have ih := fun d => lastHandler_untouched t mid d (by simpa using h.2)
    have h1 := h.1
    cases op <;> simp_all [lastHandler, Op.touchesHandler]
    all_goals (intro heq; simp_all)

/-- The handler entry of `t` after `pre`, a store for `t`, and statements that do not touch the entry of `t`
    (other stores, and any number of dumps). -/
theorem C20_history_entry_after_store (s : State) (pre mid : List Op) (t : String) (e : Option Nat)
    (hmid : mid.all (fun o => !o.touchesHandler t) = true) :
    (final s (pre ++ .setHandler t e :: mid)).cfg.handlers.lookup t = some e := by
  rw [C20_history_handler_in_force, lastHandler_append]
  simp only [lastHandler, beq_self_eq_true, if_true]
  exact lastHandler_untouched t mid _ hmid

/-- **A handler registered after the object has already been used is the one applied.**  In
    `…pre…; config.serialize_handlers[T] = h; …mid…; dump(v, sm, ia, ig, config)` with `type(v) is T` and no statement of
    `mid` touching the entry of `T`, the dump IS the handler's outcome on `v` with the names and the ignore list of the
    call — however many dumps `pre` and `mid` contain. -/
theorem C20_history_late_handler_used (env : ClassEnv) (H : Nat → HandlerFn) (s : State) (pre mid post : List Op)
    (t : String) (h : Nat) (sm ia : Option String) (ig : Option (List PyVal)) (v : PyVal)
    (hv : v.typeName = t) (hmid : mid.all (fun o => !o.touchesHandler t) = true) :
    (run env H s ((pre ++ .setHandler t (some h) :: mid) ++ .dump sm ia ig v :: post))[(pre ++ Op.setHandler t (some h) :: mid).length]?
      = some (some (H h v (orStr sm (final s (pre ++ .setHandler t (some h) :: mid)).cfg.serializeMethod)
                          (orStr ia (final s (pre ++ .setHandler t (some h) :: mid)).cfg.ignoreAttribute) (ig.getD []))) := by
  rw [C20_history_reads_current_state]
  have he := C20_history_entry_after_store s pre mid t (some h) hmid
  simp only [observe, dumpTop]
  congr 2
  apply C20_handler_step
  rw [C20_handlerFor_iff, hv]
  exact he

/-- … and at depth: after the same history a field value whose class is `T` (or a subclass of it) is of a known type —
    it is not omitted (`C20_dumped_fields`), and is dumped with the handler (`C20_handler_everywhere`) — and after
    `config.serialize_handlers.pop(T, None)` an instance of `T` held in a field is unknown again when no other entry covers it
    (`C20_unsupported_omitted`): the set of known types is the set of keys at the time of the call. -/
theorem C20_history_late_handler_known (env : ClassEnv) (H : Nat → HandlerFn) (s : State) (pre mid : List Op)
    (t : String) (e : Option Nat) (fs : List (String × PyVal)) (hmid : mid.all (fun o => !o.touchesHandler t) = true) :
    isKnown { env := env, cfg := (final s (pre ++ .setHandler t e :: mid)).cfg, H := H } (.obj t fs) = true :=
  C20_handled_type_is_known _ t fs e (C20_history_entry_after_store s pre mid t e hmid)

theorem C20_history_removed_handler_unknown (env : ClassEnv) (H : Nat → HandlerFn) (s : State) (pre : List Op)
    (c : String) (fs : List (String × PyVal)) :
    isKnown { env := env, cfg := (final s (pre ++ [.clearHandlers])).cfg, H := H } (.obj c fs) = false := by
  have : (final s (pre ++ [.clearHandlers])).cfg.handlers = [] := by
    simp [final, List.foldl_append, mutate]
  simp [isKnown, this]

/- Non-vacuity: the history of the seeded defect.  A bean with a `date` field is dumped (the field is omitted: no entry
   for `date`), a handler for `date` is registered on the same object, the bean is dumped again: the field is there, with
   the handler's output.  A `dump` that kept the types tuple of the first call would omit it again. -/
private def exEnvHist : ClassEnv := [
  ("Event", { module := "app", name := "Event", kind := .bean [("name", .str "launch"), ("when", .none)] }),
  ("date", { module := "datetime", name := "date", ownSlots := some [], kind := .bean [] })]
private def exEvent : PyVal := .obj "Event" [("name", .str "launch"), ("when", .obj "date" [])]
private def exHistH : Nat → HandlerFn := fun _ _ _ _ _ => pure (.str "D:2024-02-29")
private def exHistory : List Op :=
  [.dump Option.none Option.none Option.none exEvent, .setHandler "date" (some 0), .dump Option.none Option.none Option.none exEvent,
   .rpcDump (.list [exEvent]), .delHandler "date", .dump Option.none Option.none Option.none exEvent]
example : run exEnvHist exHistH {} exHistory =
    [some (.ok (.dict [(.str "__jsonclass__", .list [.str "app.Event", .list []]), (.str "name", .str "launch")])),
     Option.none,
     some (.ok (.dict [(.str "__jsonclass__", .list [.str "app.Event", .list []]), (.str "name", .str "launch"),
                       (.str "when", .str "D:2024-02-29")])),
     some (.ok (.list [.dict [(.str "__jsonclass__", .list [.str "app.Event", .list []]), (.str "name", .str "launch"),
                       (.str "when", .str "D:2024-02-29")]])),
     Option.none,
     some (.ok (.dict [(.str "__jsonclass__", .list [.str "app.Event", .list []]), (.str "name", .str "launch")]))] := by
  simp [run, observe, mutate, store, erase, exHistory, exEvent, exEnvHist, exHistH,
    dumpTop, orStr, dump, dumpList, dumpBean, dumpFields, dumpKVs, handlerFor, typeName,
    List.lookup, namesDistinct, emitName, getAttrD, findFields, slotsFinder, hasDict, ignoreEntryClass, pyEq, numEq, asInt?,
    isKnown, isSubclass, valueIn, inUndescribed, isNonEmptyTuple, eqRaisesOf, isDecimalObj, jcKey, bind, Except.bind, pure, Except.pure]
example : (final {} exHistory).cfg.handlers = [] ∧ lastHandler "date" Option.none (exHistory.take 3) = some (some 0) := by
  decide +kernel

end history

end JRV.Props
