/-
  C20 — companion theorems of the facts extracted from jsonrpclib/jsonclass.py (tools/extractors/jsonclass.py,
  jsonclass2.py): each relates `JRV.Generated.<fact>` to the constant of JRV.Model.JsonClass that documents which
  construct of the model mirrors it.  Built and audited separately from JRV.Properties.C20 (harness/README.md).
-/
import JRV.Model.JsonClass
import JRV.Model.ConfigCopy
import JRV.Generated

namespace JRV.Props
open JRV JRV.JsonClass

/-- The handler lookup `config.serialize_handlers[type(obj)]` is the first statement after the normalisation of
    the arguments — nothing (no `isinstance`, no `type(obj) is …` shortcut) precedes it — and a non-`None`
    handler's result is returned as it is: the outer match of the model's `dump` (`C20_handler_step`). -/
theorem C20_gen_handlerLookupFirst : Generated.handlerLookupFirst = some JsonClass.handlerLookupFirst := by decide

/-- The three recursive `dump(...)` calls (list items, dict values, field values) forward `serialize_method`,
    `ignore_attribute`, `ignore` and `config` unchanged, as `dumpList`, `dumpKVs` and `dumpFields` do. -/
theorem C20_gen_dumpCalls : Generated.dumpCalls = some dumpCallSites := by decide

/-- The handler is called with `(obj, serialize_method, ignore_attribute, ignore, config)`. -/
theorem C20_gen_handlerCallArgs : Generated.handlerCallArgs = some JsonClass.handlerCallArgs := by decide

/-- `known_types` includes `tuple(config.serialize_handlers)` (`isKnown`, `C20_handled_type_is_known`). -/
theorem C20_gen_knownTypes : Generated.knownTypesIncludeHandlers = some JsonClass.knownTypesIncludeHandlers := by decide

/-- Ignore-list assembly and both uses of it in the field-wise branch (`dumpBean`). -/
theorem C20_gen_ignoreAssembly : Generated.ignoreAssembly = some JsonClass.ignoreAssembly := by decide

/-- The serialisation-method branch assembles the same list and keeps the returned attributes whose key is
    `not in` it (`C20_method_form`). -/
theorem C20_gen_serialIgnoreFilter : Generated.serialIgnoreFilter = some JsonClass.serialIgnoreFilter := by decide

/-- `x or config.x` normalisation of the three optional arguments (`dumpTop`, `C20_names_defaults`). -/
theorem C20_gen_dumpDefaults : Generated.dumpDefaults = some JsonClass.dumpDefaults := by decide

/-- The attribute names read from the object are the variables holding the names in force, never a literal. -/
theorem C20_gen_attributeNames : Generated.attributeNamesConsulted = some JsonClass.attributeNamesConsulted := by decide

/-- The two conditions of the field filter are evaluated type test first: a value of neither a supported nor a
    handled type is never compared with the ignore-list entries (`dumpFields`, `C20_unsupported_not_compared`). -/
theorem C20_gen_fieldFilterOrder : Generated.fieldFilterOrder = some JsonClass.fieldFilterOrder := by decide

/-- `Config.__init__` defines exactly the attributes of `ConfigCopy.Cfg`. -/
theorem C20_gen_configInitFields : Generated.configInitFields = some ConfigCopy.initFields := by decide

/-- `Config.copy` fills every one of them from the original: the six scalars through the constructor parameter that
    is stored into the attribute of the same name, the two dictionaries by `.copy()` (`ConfigCopy.copy`,
    `C20_copy_fields`, `C20_copy_table_complete`). -/
theorem C20_gen_configCopyFields : Generated.configCopyFields = some ConfigCopy.copyFields := by decide

end JRV.Props
