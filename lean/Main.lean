import JRV.Driver

partial def loop (h : IO.FS.Stream) (out : IO.FS.Stream) : IO Unit := do
  let line ← h.getLine
  if line.isEmpty then return ()
  let l := (line.dropEndWhile (fun c => c == '\n' || c == '\r')).toString
  out.putStrLn (JRV.Driver.handle l)
  loop h out

def main : IO Unit := do
  let i ← IO.getStdin
  let o ← IO.getStdout
  loop i o
  o.flush
