#!/venv/bin/python
"""
Source extractor:  /repo working tree  ->  lean/JRV/Generated.lean  (+ Generated.json)

Every fact is read from the *current* source with the `ast` module (never from a cached copy)
and emitted as

    def <name> : Option <LeanType> := some <value>      -- pattern found
    def <name> : Option <LeanType> := none              -- pattern not found (code restructured)

so that the companion theorems in JRV/Properties (e.g. `Generated.protoRange = some (-32700, -32000, true, true)`)
are re-checked by `lake build` against what the code says now; a `none` makes the companion fail,
which the check reports as a broken obligation (never as a crash).

Fact providers live in tools/extractors/*.py; each exposes `facts(src) -> [Fact]` where `src`
is a `Source` (parsed modules of the package).  The output file is only rewritten when its
content changes, so an untouched tree causes no rebuild.

usage: extract.py <repo> <out.lean>
"""
import ast
import importlib.util
import json
import os
import sys


class Fact(object):
    def __init__(self, name, lean_type, value, properties, why="", json_value=None):
        self.name = name
        self.lean_type = lean_type
        self.value = value  # Lean term as text, or None when the pattern was not found
        self.properties = properties
        self.why = why
        self.json_value = json_value


class Source(object):
    """Parsed modules of the jsonrpclib package."""

    def __init__(self, repo):
        self.repo = repo
        self.trees = {}
        self.texts = {}
        pkg = os.path.join(repo, "jsonrpclib")
        for f in sorted(os.listdir(pkg)):
            if f.endswith(".py"):
                p = os.path.join(pkg, f)
                try:
                    txt = open(p, encoding="utf-8").read()
                    self.texts[f[:-3]] = txt
                    self.trees[f[:-3]] = ast.parse(txt)
                except (OSError, SyntaxError):
                    pass

    def module(self, name):
        return self.trees.get(name)

    def func(self, module, qualname):
        """FunctionDef node for `func` or `Class.func` in a module, or None."""
        tree = self.trees.get(module)
        if tree is None:
            return None
        parts = qualname.split(".")
        body = tree.body
        node = None
        for i, part in enumerate(parts):
            node = None
            for n in body:
                if isinstance(n, (ast.FunctionDef, ast.ClassDef)) and n.name == part:
                    node = n
                    break
            if node is None:
                return None
            body = node.body
        return node if isinstance(node, ast.FunctionDef) else None

    def klass(self, module, name):
        tree = self.trees.get(module)
        if tree is None:
            return None
        for n in tree.body:
            if isinstance(n, ast.ClassDef) and n.name == name:
                return n
        return None

    def assign_value(self, module, name, scope=None):
        """Value node of the last top-level (or class-level) `name = ...` assignment."""
        body = (scope or self.trees.get(module)).body if (scope or self.trees.get(module)) else []
        found = None
        for n in body:
            if isinstance(n, ast.Assign):
                for t in n.targets:
                    if isinstance(t, ast.Name) and t.id == name:
                        found = n.value
        return found


# ---- helpers to print Lean terms -----------------------------------------------------------

def lean_str(s):
    out = ['"']
    for ch in s:
        if ch == '"':
            out.append('\\"')
        elif ch == "\\":
            out.append("\\\\")
        elif ch == "\n":
            out.append("\\n")
        elif ch == "\t":
            out.append("\\t")
        elif ord(ch) < 32 or ord(ch) == 127:
            out.append("\\x%02x" % ord(ch))
        else:
            out.append(ch)
    out.append('"')
    return "".join(out)


def lean_int(i):
    return "(%d : Int)" % i if i < 0 else "(%d : Int)" % i


def lean_nat(i):
    return "%d" % i


def lean_bool(b):
    return "true" if b else "false"


def lean_list(items):
    return "[" + ", ".join(items) + "]"


def const_num(node):
    """Numeric value of a literal or a negated literal, else None."""
    if isinstance(node, ast.Constant) and isinstance(node.value, (int, float)) and not isinstance(node.value, bool):
        return node.value
    if isinstance(node, ast.UnaryOp) and isinstance(node.op, ast.USub):
        v = const_num(node.operand)
        return -v if v is not None else None
    return None


def load_providers():
    d = os.path.join(os.path.dirname(os.path.abspath(__file__)), "extractors")
    mods = []
    if os.path.isdir(d):
        for f in sorted(os.listdir(d)):
            if f.endswith(".py") and not f.startswith("_"):
                spec = importlib.util.spec_from_file_location("extractors_" + f[:-3], os.path.join(d, f))
                m = importlib.util.module_from_spec(spec)
                spec.loader.exec_module(m)
                mods.append(m)
    return mods


def main(argv):
    repo, out = argv[0], argv[1]
    src = Source(repo)
    facts = []
    for m in load_providers():
        try:
            facts.extend(m.facts(src))
        except Exception as ex:  # a provider must never take the run down
            facts.append(Fact("providerFailure_" + m.__name__, "Unit", None, getattr(m, "PROPERTIES", []),
                              "provider raised %s: %s" % (type(ex).__name__, ex)))
    lines = [
        "/- GENERATED by tools/extract.py from the working tree of the repository: do not edit. -/",
        "namespace JRV.Generated",
        "",
    ]
    js = {"_missing": {}}
    seen = set()
    for f in facts:
        if f.name in seen:
            continue
        seen.add(f.name)
        if f.why:
            lines.append("/-- %s -/" % f.why.replace("-/", "- /"))
        if f.value is None:
            lines.append("def %s : Option (%s) := none" % (f.name, f.lean_type))
            js["_missing"][f.name] = {"properties": f.properties, "why": f.why}
        else:
            lines.append("def %s : Option (%s) := some (%s)" % (f.name, f.lean_type, f.value))
            js[f.name] = f.json_value if f.json_value is not None else f.value
        lines.append("")
    lines.append("end JRV.Generated")
    text = "\n".join(lines) + "\n"
    try:
        old = open(out).read()
    except OSError:
        old = None
    if old != text:
        tmp = out + ".tmp%d" % os.getpid()
        with open(tmp, "w") as fh:
            fh.write(text)
        os.replace(tmp, out)
    jpath = os.path.splitext(out)[0] + ".json"
    tmp = jpath + ".tmp%d" % os.getpid()
    with open(tmp, "w") as fh:
        json.dump(js, fh, indent=1, sort_keys=True, default=repr)
    os.replace(tmp, jpath)
    return 0


if __name__ == "__main__":
    sys.exit(main(sys.argv[1:]))
