"""
Facts about the byte layer (C05, C17, C04): the codecs of `utils.from_bytes` / `utils.to_bytes` (Python 3 branch).

The models (lean/JRV/Model/Wire.lean `fromBytes` / `toBytes`, lean/JRV/Model/ByteBody.lean) are the STRICT UTF-8 codec:
nothing is dropped (a leading EF BB BF stays U+FEFF — `utf-8-sig` would swallow it), replaced (`errors="replace"`),
ignored or escaped, and no other encoding is tried.

  fromBytesCodec : (codec name as `codecs.lookup` normalises it, an error handler other than "strict" is given)
  toBytesCodec   : the same for the encoder

Accepted spellings of the conversion (anything else: the fact is `none`):
    str(data, "UTF-8")   str(data, encoding="utf8")   data.decode("utf-8")   data.decode()   codecs.decode(data, "utf-8")
    bytes(s, "UTF-8")    s.encode("utf-8")            s.encode()             codecs.encode(s, "utf-8")
with an optional `errors` argument, behind an optional pass-through test of the argument's type
(`if type(data) is str: return data` / isinstance), possibly through a one-step local alias (`text = str(...); return text`).
"""
import ast
import codecs

from __main__ import Fact, lean_bool, lean_str

PROPERTIES = ["C05", "C17"]


def _py3_def(tree, name):
    """The definition of `name` that Python 3 executes: the last `def name` in the module body, descending into the
    `else` branches of version tests (`if sys.version_info[0] < 3: … else: …`) and into both branches otherwise."""
    found = [None]

    def visit(body):
        for n in body:
            if isinstance(n, ast.FunctionDef) and n.name == name:
                found[0] = n
            elif isinstance(n, ast.If):
                src = ast.unparse(n.test)
                if "version_info" in src or "PYTHON_2" in src or "PY2" in src:
                    py2_first = ("< 3" in src or "<3" in src or "== 2" in src or "PYTHON_2" in src or "PY2" in src) and "not " not in src
                    visit(n.orelse if py2_first else n.body)
                else:
                    visit(n.body)
                    visit(n.orelse)
            elif isinstance(n, ast.Try):
                visit(n.body)
    visit(tree.body)
    return found[0]


def _const_str(node):
    return node.value if isinstance(node, ast.Constant) and isinstance(node.value, str) else None


def _conversion(call, param, constructor, method):
    """(codec, errors) of a conversion call applied to the parameter itself, or None."""
    if not isinstance(call, ast.Call):
        return None
    enc = errors = None
    f = call.func
    args = list(call.args)
    kws = dict((k.arg, k.value) for k in call.keywords if k.arg)
    if any(k.arg is None for k in call.keywords):
        return None
    if isinstance(f, ast.Name) and f.id == constructor:
        # str(data, "UTF-8") / bytes(string, "UTF-8")
        if not args or not (isinstance(args[0], ast.Name) and args[0].id == param):
            return None
        rest = args[1:]
    elif isinstance(f, ast.Attribute) and f.attr == method and isinstance(f.value, ast.Name) and f.value.id == param:
        rest = args
    elif (isinstance(f, ast.Attribute) and f.attr == method and isinstance(f.value, ast.Name) and f.value.id == "codecs"
          and args and isinstance(args[0], ast.Name) and args[0].id == param):
        rest = args[1:]
    else:
        return None
    if len(rest) > 2 or set(kws) - {"encoding", "errors"}:
        return None
    if rest:
        enc = _const_str(rest[0])
        if enc is None:
            return None
    if len(rest) > 1:
        errors = _const_str(rest[1])
        if errors is None:
            return None
    if "encoding" in kws:
        if enc is not None:
            return None
        enc = _const_str(kws["encoding"])
        if enc is None:
            return None
    if "errors" in kws:
        if errors is not None:
            return None
        errors = _const_str(kws["errors"])
        if errors is None:
            return None
    if enc is None:
        if isinstance(f, ast.Name):
            return None        # str(data) / bytes(s): not a codec conversion
        enc = "utf-8"          # the default of bytes.decode / str.encode
    try:
        enc = codecs.lookup(enc).name
    except LookupError:
        enc = "unknown:" + enc
    return enc, (errors is not None and errors != "strict")


def _codec_of(fn, constructor, method):
    """The one conversion every path of `fn` that does not return the parameter unchanged goes through."""
    if fn is None or not fn.args.args:
        return None
    param = fn.args.args[0].arg
    aliases = {}
    for n in ast.walk(fn):
        if isinstance(n, ast.Assign) and len(n.targets) == 1 and isinstance(n.targets[0], ast.Name):
            if n.targets[0].id == param:
                return None     # the parameter is rebound (strip / slice / lstrip of a mark before decoding): not the modelled shape
            aliases.setdefault(n.targets[0].id, []).append(n.value)
        elif isinstance(n, (ast.AugAssign, ast.AnnAssign, ast.NamedExpr)):
            return None
    found = []
    for n in ast.walk(fn):
        if not isinstance(n, ast.Return):
            continue
        v = n.value
        if isinstance(v, ast.Name) and v.id == param:
            continue            # pass-through of a value that already has the target type
        if isinstance(v, ast.Name) and v.id in aliases and len(aliases[v.id]) == 1:
            v = aliases[v.id][0]
        c = _conversion(v, param, constructor, method)
        if c is None:
            return None
        found.append(c)
    if not found or len(set(found)) != 1:
        return None
    return found[0]


def facts(src):
    tree = src.module("utils")
    fb = _codec_of(_py3_def(tree, "from_bytes"), "str", "decode") if tree is not None else None
    tb = _codec_of(_py3_def(tree, "to_bytes"), "bytes", "encode") if tree is not None else None

    def val(c):
        return None if c is None else "(%s, %s)" % (lean_str(c[0]), lean_bool(c[1]))
    return [
        Fact("fromBytesCodec", "String × Bool", val(fb), ["C05", "C17"],
             "utils.from_bytes (Python 3): bytes are converted by one codec call on the argument itself — (codec name normalised by "
             "codecs.lookup, an error handler other than 'strict' is given).  The model is the strict UTF-8 codec: 'utf-8-sig' drops "
             "a leading byte-order mark, 'replace'/'ignore' alter undecodable bodies", json_value=None if fb is None else list(fb)),
        Fact("toBytesCodec", "String × Bool", val(tb), ["C17"],
             "utils.to_bytes (Python 3): text is converted by one codec call on the argument itself — (codec, non-strict error "
             "handler).  The model is the strict UTF-8 codec ('utf-8-sig' would prepend EF BB BF to every body sent)",
             json_value=None if tb is None else list(tb)),
    ]
