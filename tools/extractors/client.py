"""
Facts about jsonrpclib/jsonrpc.py client-side reply handling (C06).
"""
import ast

from __main__ import Fact, const_num, lean_str

PROPERTIES = ["C06"]

_OPS = {ast.LtE: True, ast.Lt: False}


def _proto_range(fn):
    """The chained comparison `<lo> <= code <= <hi>` in check_for_errors."""
    for n in ast.walk(fn):
        if isinstance(n, ast.Compare) and len(n.ops) == 2 and isinstance(n.comparators[0], ast.Name):
            lo = const_num(n.left)
            hi = const_num(n.comparators[1])
            if lo is None or hi is None or type(n.ops[0]) not in _OPS or type(n.ops[1]) not in _OPS:
                continue
            if isinstance(lo, int) and isinstance(hi, int):
                return lo, hi, _OPS[type(n.ops[0])], _OPS[type(n.ops[1])]
    return None


def _raised_class(stmts):
    """Name of the exception class raised by the first `raise X(...)` directly in a statement list."""
    for s in stmts:
        if isinstance(s, ast.Raise) and isinstance(s.exc, ast.Call) and isinstance(s.exc.func, ast.Name):
            return s.exc.func.id
    return None


def _error_classes(fn):
    """
    Classes raised in the four branches of the truthy-error block:
    (pre-defined code, other code, single-entry object, anything else).
    Located structurally: the `if` whose test mentions the chained comparison result decides the
    first two; the `elif`/`else` of the `"code" in ...` test give the last two.
    """
    rng_if = None
    for n in ast.walk(fn):
        if isinstance(n, ast.If):
            r1 = _raised_class(n.body)
            r2 = _raised_class(n.orelse)
            if r1 and r2 and rng_if is None:
                # innermost if with a raise in both arms: candidates
                has_data = any(isinstance(m, ast.Constant) and m.value == "data" for s in n.orelse for m in ast.walk(s))
                if has_data:
                    rng_if = (r1, r2)
    code_if = None
    for n in ast.walk(fn):
        if isinstance(n, ast.If) and any(isinstance(m, ast.Constant) and m.value == "code" for m in ast.walk(n.test)):
            if len(n.orelse) == 1 and isinstance(n.orelse[0], ast.If):
                single = _raised_class(n.orelse[0].body)
                other = _raised_class(n.orelse[0].orelse)
                if single and other:
                    code_if = (single, other)
    if rng_if and code_if:
        return rng_if + code_if
    return None


def facts(src):
    fn = src.func("jsonrpc", "check_for_errors")
    out = []
    rng = _proto_range(fn) if fn is not None else None
    out.append(Fact(
        "protoRange", "Int × Int × Bool × Bool",
        None if rng is None else "((%d : Int), (%d : Int), %s, %s)" % (rng[0], rng[1], str(rng[2]).lower(), str(rng[3]).lower()),
        ["C06"], "check_for_errors: bounds of the pre-defined range and inclusiveness of each comparison",
        json_value=rng))
    cls = _error_classes(fn) if fn is not None else None
    out.append(Fact(
        "errorClasses", "String × String × String × String",
        None if cls is None else "(%s)" % ", ".join(lean_str(c) for c in cls),
        ["C06"], "check_for_errors: exception class raised for (pre-defined code, other code, single-entry error, any other error)",
        json_value=cls))
    return out
