"""
Facts about jsonrpclib/jsonrpc.py client-side reply handling (C06).
"""
import ast

from __main__ import Fact, const_num, lean_str

import importlib.util
import os
import sys


def _load_norm():
    """tools/extractors/normalise_rpc.py, loaded once per process under a name of its own (sys.path is left alone)."""
    name = "jrv_normalise_rpc"
    if name not in sys.modules:
        spec = importlib.util.spec_from_file_location(
            name, os.path.join(os.path.dirname(os.path.abspath(__file__)), "normalise_rpc.py"))
        mod = importlib.util.module_from_spec(spec)
        sys.modules[name] = mod
        spec.loader.exec_module(mod)
    return sys.modules[name]


norm = _load_norm()


PROPERTIES = ["C06"]

_OPS = {ast.LtE: True, ast.Lt: False}


def _chained(fn):
    """A copy of the function in which `lo <= x and x <= hi` (either operand spelt either way round: `x >= lo`) is the
    chained comparison `lo <= x <= hi` — the same two comparisons in the same order on a local name."""
    fn = norm.clone(fn)
    flip = {ast.Gt: ast.Lt, ast.GtE: ast.LtE}
    for n in list(ast.walk(fn)):
        if isinstance(n, ast.BoolOp) and isinstance(n.op, ast.And) and len(n.values) == 2 \
                and all(isinstance(v, ast.Compare) and len(v.ops) == 1 for v in n.values):
            parts = []
            for v in n.values:
                l, op, r = v.left, type(v.ops[0]), v.comparators[0]
                if op in flip:
                    l, op, r = r, flip[op], l
                parts.append((l, op, r))
            (l1, o1, r1), (l2, o2, r2) = parts
            if o1 in _OPS and o2 in _OPS and isinstance(r1, ast.Name) and isinstance(l2, ast.Name) and r1.id == l2.id \
                    and const_num(l1) is not None and const_num(r2) is not None:
                new = ast.copy_location(ast.Compare(left=l1, ops=[o1(), o2()], comparators=[r1, r2]), n)
                norm._replace_node(fn, n, ast.fix_missing_locations(new))
    return fn


def _proto_range(fn):
    """The chained comparison `<lo> <= code <= <hi>` in check_for_errors."""
    for n in ast.walk(fn):
        if isinstance(n, ast.Compare) and len(n.ops) == 2 and isinstance(n.comparators[0], ast.Name):
            lo = const_num(n.left)
            hi = const_num(n.comparators[1])
            if lo is None or hi is None or type(n.ops[0]) not in _OPS or type(n.ops[1]) not in _OPS:
                continue
            if isinstance(lo, int) and isinstance(hi, int):
                return lo, hi, _OPS[type(n.ops[0])], _OPS[type(n.ops[1])]
    return None


def _raised_class(stmts):
    """Name of the exception class raised by the first `raise X(...)` directly in a statement list."""
    for s in stmts:
        if isinstance(s, ast.Raise) and isinstance(s.exc, ast.Call) and isinstance(s.exc.func, ast.Name):
            return s.exc.func.id
    return None


def _raise_class(node):
    if isinstance(node, ast.Raise) and isinstance(node.exc, ast.Call) and isinstance(node.exc.func, ast.Name):
        return node.exc.func.id
    return None


def _blocks(fn):
    for n in ast.walk(fn):
        for field in ("body", "orelse", "finalbody"):
            b = getattr(n, field, None)
            if isinstance(b, list) and b and isinstance(b[0], ast.stmt):
                yield b


def _first_raise(stmts):
    """The raise a straight-line statement list ends in (assignments/expressions before it allowed)."""
    for st in stmts:
        if isinstance(st, ast.Raise):
            return st
        if not isinstance(st, (ast.Assign, ast.Expr, ast.AnnAssign, ast.AugAssign)):
            return None
    return None


def _error_classes(fn):
    """
    Classes raised in the four branches of the truthy-error block:
    (pre-defined code, other code, single-entry object, anything else).
    Located semantically, not by position: the `if` testing the range flag (`predefined` / `not predefined`; else-arm or
    fall-through) gives the first two — cross-checked by the payload of the raise: a 2-tuple (code, message) for the
    pre-defined class, a 3-tuple with the data for the other; the raise whose argument is `error[<key>]` is the
    single-entry class, the raise whose argument is the error value itself the last one.
    """
    flag = None
    for n in ast.walk(fn):
        # `predefined = lo <= code <= hi`
        if isinstance(n, ast.Assign) and isinstance(n.value, ast.Compare) and len(n.value.ops) == 2 and \
                len(n.targets) == 1 and isinstance(n.targets[0], ast.Name):
            flag = n.targets[0].id
    if flag is None:
        return None
    pre = other = None
    for block in _blocks(fn):
        for i, st in enumerate(block):
            if not isinstance(st, ast.If):
                continue
            t = st.test
            neg = False
            if isinstance(t, ast.UnaryOp) and isinstance(t.op, ast.Not):
                t, neg = t.operand, True
            if not (isinstance(t, ast.Name) and t.id == flag):
                continue
            r_true = _first_raise(st.body)
            r_false = _first_raise(st.orelse) if st.orelse else _first_raise(block[i + 1:])
            if neg:
                r_true, r_false = r_false, r_true
            if r_true is None or r_false is None:
                return None
            a_true = r_true.exc.args[0] if isinstance(r_true.exc, ast.Call) and r_true.exc.args else None
            a_false = r_false.exc.args[0] if isinstance(r_false.exc, ast.Call) and r_false.exc.args else None
            if not (isinstance(a_true, ast.Tuple) and len(a_true.elts) == 2 and isinstance(a_false, ast.Tuple) and len(a_false.elts) == 3):
                return None
            pre, other = _raise_class(r_true), _raise_class(r_false)
    single = raw = None
    for n in ast.walk(fn):
        c = _raise_class(n)
        if c is None or not n.exc.args:
            continue
        a = n.exc.args[0]
        if isinstance(a, ast.Tuple):
            continue
        # result["error"][key]  vs  result["error"]
        def is_error_value(e):
            return (isinstance(e, ast.Subscript) and isinstance(e.slice, ast.Constant) and e.slice.value == "error") or \
                   (isinstance(e, ast.Name) and e.id in ("error", "err"))
        if isinstance(a, ast.Subscript) and is_error_value(a.value) and not isinstance(a.slice, ast.Constant):
            single = c
        elif is_error_value(a):
            raw = c
    if pre and other and single and raw:
        return (pre, other, single, raw)
    return None


CHECKERS = ("check_for_errors", "__get_result", "_MultiCallIterator__get_result")

SITES = [
    ("ServerProxy._request", "ServerProxy._request"),
    ("ServerProxy._request_notify", "ServerProxy._request_notify"),
    ("MultiCallIterator.__get_result", "MultiCallIterator.__get_result"),
    ("MultiCallIterator.__iter__", "MultiCallIterator.__iter__"),
    ("MultiCallIterator.__getitem__", "MultiCallIterator.__getitem__"),
    ("MultiCall._request", "MultiCall._request"),
]


def _is_checker_call(n):
    if not isinstance(n, ast.Call):
        return False
    f = n.func
    return (isinstance(f, ast.Name) and f.id in CHECKERS) or (isinstance(f, ast.Attribute) and f.attr in CHECKERS)


def _call_site(fn):
    """(calls the checker, some checker call sits inside a `try` that has handlers)."""
    calls = False
    guarded = False

    def walk(node, in_try):
        nonlocal calls, guarded
        if _is_checker_call(node):
            calls = True
            if in_try:
                guarded = True
        if isinstance(node, ast.Try):
            for s in node.body:
                walk(s, in_try or bool(node.handlers))
            for part in (node.handlers, node.orelse, node.finalbody):
                for s in part:
                    walk(s, in_try)
            return
        if isinstance(node, (ast.FunctionDef, ast.Lambda)) and node is not fn:
            return
        for c in ast.iter_child_nodes(node):
            walk(c, in_try)

    walk(fn, False)
    return calls, guarded


def _call_sites(src):
    out = []
    for label, qual in SITES:
        fn = src.func("jsonrpc", qual)
        if fn is None:
            return None
        c, g = _call_site(fn)
        out.append((label, c, g))
    return out


def facts(src):
    src = norm.nsource(src)
    fn = src.func("jsonrpc", "check_for_errors")
    if fn is not None:
        fn = _chained(fn)
    out = []
    rng = _proto_range(fn) if fn is not None else None
    out.append(Fact(
        "protoRange", "Int × Int × Bool × Bool",
        None if rng is None else "((%d : Int), (%d : Int), %s, %s)" % (rng[0], rng[1], str(rng[2]).lower(), str(rng[3]).lower()),
        ["C06"], "check_for_errors: bounds of the pre-defined range and inclusiveness of each comparison",
        json_value=rng))
    cls = _error_classes(fn) if fn is not None else None
    out.append(Fact(
        "errorClasses", "String × String × String × String",
        None if cls is None else "(%s)" % ", ".join(lean_str(c) for c in cls),
        ["C06"], "check_for_errors: exception class raised for (pre-defined code, other code, single-entry error, any other error)",
        json_value=cls))
    sites = _call_sites(src)
    out.append(Fact(
        "clientCallSites", "List (String × Bool × Bool)",
        None if sites is None else "[" + ", ".join(
            "(%s, %s, %s)" % (lean_str(n), str(c).lower(), str(g).lower()) for n, c, g in sites) + "]",
        ["C06"], "every client access path (proxy call, notification call, MultiCall index/iteration, whole-batch object): "
                 "(site, calls check_for_errors or __get_result, some such call sits inside a try with handlers)",
        json_value=sites))
    return out
