"""
Facts about the client call path of jsonrpclib/jsonrpc.py (C01): _Method.__call__, ServerProxy._request,
ServerProxy._run_request (History around the transport), MultiCall / MultiCallMethod / MultiCallIterator, and
the attribute names of ServerProxy that `__getattr__` never sees.
"""
import ast

from __main__ import Fact, lean_str, lean_list

import importlib.util
import os
import sys


def _load_norm():
    """tools/extractors/normalise_rpc.py, loaded once per process under a name of its own (sys.path is left alone)."""
    name = "jrv_normalise_rpc"
    if name not in sys.modules:
        spec = importlib.util.spec_from_file_location(
            name, os.path.join(os.path.dirname(os.path.abspath(__file__)), "normalise_rpc.py"))
        mod = importlib.util.module_from_spec(spec)
        sys.modules[name] = mod
        spec.loader.exec_module(mod)
    return sys.modules[name]


norm = _load_norm()


PROPERTIES = ["C01"]


def _name(n):
    return n.id if isinstance(n, ast.Name) else None


def _raised(stmts):
    for s in stmts:
        if isinstance(s, ast.Raise) and isinstance(s.exc, ast.Call) and isinstance(s.exc.func, ast.Name):
            return s.exc.func.id
    return None


class _Stop(Exception):
    def __init__(self, what):
        Exception.__init__(self, what)
        self.what = what


def _truth(e, truthy, env):
    """Truth value of a test over the names `args` / `kwargs` (and locals bound to them) in one of the cases."""
    if isinstance(e, ast.Name):
        v = env.get(e.id, e.id)
        if v in truthy:
            return truthy[v]
        raise _Stop(None)
    if isinstance(e, ast.UnaryOp) and isinstance(e.op, ast.Not):
        return not _truth(e.operand, truthy, env)
    if isinstance(e, ast.BoolOp):
        vals = [_truth(v, truthy, env) for v in e.values]
        return all(vals) if isinstance(e.op, ast.And) else any(vals)
    if isinstance(e, ast.Call) and _name(e.func) in ("len", "bool") and len(e.args) == 1:
        return _truth(e.args[0], truthy, env)
    if isinstance(e, ast.Compare) and len(e.ops) == 1 and isinstance(e.comparators[0], ast.Constant) and e.comparators[0].value == 0 \
            and isinstance(e.left, ast.Call) and _name(e.left.func) == "len" and len(e.left.args) == 1:
        t = _truth(e.left.args[0], truthy, env)
        if isinstance(e.ops[0], (ast.Gt, ast.NotEq)):
            return t
        if isinstance(e.ops[0], ast.Eq):
            return not t
    raise _Stop(None)


def _value(e, truthy, env):
    """Which of `args` / `kwargs` an expression denotes in one of the cases (None: something else)."""
    if isinstance(e, ast.Name):
        return env.get(e.id, e.id if e.id in truthy else None)
    if isinstance(e, ast.IfExp):
        return _value(e.body if _truth(e.test, truthy, env) else e.orelse, truthy, env)
    if isinstance(e, ast.BoolOp):
        for v in e.values[:-1]:
            x = _value(v, truthy, env)
            if x is None:
                return None
            if truthy[x] == isinstance(e.op, ast.Or):
                return x
        return _value(e.values[-1], truthy, env)
    return None


def _run(stmts, truthy, env):
    """Executes the statements in one case; raises _Stop(('raise', Class)) / _Stop(('send', what))."""
    for s in stmts:
        if isinstance(s, ast.Expr) and isinstance(s.value, ast.Constant):
            continue
        if isinstance(s, ast.Raise):
            cls = s.exc.func.id if isinstance(s.exc, ast.Call) and isinstance(s.exc.func, ast.Name) else _name(s.exc)
            raise _Stop(("raise", cls))
        if isinstance(s, ast.If):
            _run(s.body if _truth(s.test, truthy, env) else s.orelse, truthy, env)
            continue
        if isinstance(s, ast.Assign) and len(s.targets) == 1:
            t = s.targets[0]
            if isinstance(t, ast.Name):
                env[t.id] = _value(s.value, truthy, env)
                continue
            if isinstance(t, ast.Tuple) and all(isinstance(x, ast.Name) for x in t.elts):
                # `self, args = args[0], args[1:]`: the receiver is taken off the positional arguments
                # (or under another name: `self, positional = args[0], args[1:]` — the local then denotes `args`)
                ids = [x.id for x in t.elts]
                if isinstance(s.value, ast.Tuple) and len(s.value.elts) == len(ids):
                    rest = [i for i, v in enumerate(s.value.elts)
                            if isinstance(v, ast.Subscript) and _name(v.value) == "args" and isinstance(v.slice, ast.Slice)
                            and isinstance(v.slice.lower, ast.Constant) and v.slice.lower.value == 1
                            and v.slice.upper is None and v.slice.step is None]
                    first = [i for i, v in enumerate(s.value.elts)
                             if isinstance(v, ast.Subscript) and _name(v.value) == "args" and isinstance(v.slice, ast.Constant)
                             and v.slice.value == 0]
                    if len(rest) == 1 and len(first) == 1 and len(ids) == 2:
                        if ids[rest[0]] != "args":
                            env[ids[rest[0]]] = "args"
                        continue
            raise _Stop(None)
        if isinstance(s, ast.Return):
            v = s.value
            if isinstance(v, ast.Call) and len(v.args) == 2 and not v.keywords:
                raise _Stop(("send", _value(v.args[1], truthy, env)))
            raise _Stop(None)
        raise _Stop(None)
    # fell through the end of the block: the enclosing block goes on


def _method_call(fn):
    """
    What `_Method.__call__` does in each of the four cases (positional arguments present or not x keywords present or
    not), found by executing its body symbolically over the truth values of `args` and `kwargs`: statement forms
    `if/else`, early returns, conditional expressions, `x or y`, a local that holds the choice
    (`params = args if args else kwargs; return self.__send(self.__name, params)`) are all the same function.
    Reported as (class raised when both are present, what is sent with positional arguments only, with keywords only,
    with neither — "empty": either of the two empty containers, they are sent alike).
    """
    def case(a, k):
        try:
            _run(fn.body, {"args": a, "kwargs": k}, {})
        except _Stop as st:
            return st.what
        return None
    both, pos, kw, neither = case(True, True), case(True, False), case(False, True), case(False, False)
    if None in (both, pos, kw, neither) or both[0] != "raise" or pos[0] != "send" or kw[0] != "send" or neither[0] != "send":
        return None
    if None in (both[1], pos[1], kw[1], neither[1]):
        return None
    return (both[1], pos[1], kw[1], "empty" if neither[1] in ("args", "kwargs") else neither[1])


def _request_result(fn):
    """ServerProxy._request after the exchange, on EVERY path that returns: ('check_for_errors', key) when the value
    returned is `<response>[key]`, <response> being the local bound to the result of `_run_request`, handed to
    check_for_errors between the exchange and the return and not re-bound in between.  Path-sensitive: guard clauses,
    nesting, a local holding the result do not matter."""
    seen = set()
    for p in norm.paths(fn.body):
        if p.end != "return":
            continue
        var, checked, out = None, False, None
        for ev in norm.path_events(p):
            if ev[0] == "call":
                c = ev[1]
                if _name(c.func) == "check_for_errors" and var is not None and c.args and _name(c.args[0]) == var:
                    checked = True
                continue
            if ev[0] != "stmt":
                continue
            s = ev[1]
            if isinstance(s, ast.Assign) and isinstance(s.value, ast.Call) and isinstance(s.value.func, ast.Attribute) \
                    and s.value.func.attr == "_run_request" and len(s.targets) == 1 and _name(s.targets[0]):
                var, checked = _name(s.targets[0]), False
            elif isinstance(s, (ast.Assign, ast.AugAssign, ast.AnnAssign)) and var is not None:
                tgs = s.targets if isinstance(s, ast.Assign) else [s.target]
                if any(isinstance(m, ast.Name) and m.id == var for t in tgs for m in ast.walk(t) if isinstance(getattr(m, "ctx", None), ast.Store)):
                    var = None      # the response is re-bound between the exchange and the return
            elif isinstance(s, ast.Return):
                v = s.value
                if checked and var is not None and isinstance(v, ast.Subscript) and _name(v.value) == var and isinstance(v.slice, ast.Constant):
                    out = ("check_for_errors", v.slice.value)
        seen.add(out)
    if len(seen) == 1:
        return seen.pop()
    return None


def _history_order(fn):
    """
    Events of ServerProxy._run_request in evaluation order (an assignment after the value it stores): 'add_request(<request param>)', 'transport',
    'add_response(<transport result>)', 'loads(<transport result>)'; an argument that is not the expected
    variable is reported as such.
    """
    params = [a.arg for a in fn.args.args]
    req = params[1] if len(params) > 1 else None
    resp = None
    events = []
    for n in (m for m, _c in norm.eval_order(fn) if isinstance(m, (ast.Call, ast.Assign))):
        if isinstance(n, ast.Assign):
            v = n.value
            if isinstance(v, ast.Call) and isinstance(v.func, ast.Attribute) and v.func.attr == "request" and len(n.targets) == 1:
                resp = _name(n.targets[0])
                events.append("transport")
            elif resp is not None and any(_name(t) == resp for t in n.targets):
                events.append("rebind-response")
            continue
        f = n.func
        if isinstance(f, ast.Attribute) and f.attr == "add_request":
            events.append("add_request" if n.args and _name(n.args[0]) == req else "add_request(?)")
        elif isinstance(f, ast.Attribute) and f.attr == "add_response":
            events.append("add_response" if n.args and resp and _name(n.args[0]) == resp else "add_response(?)")
        elif _name(f) == "loads":
            events.append("loads" if n.args and resp and _name(n.args[0]) == resp else "loads(?)")
    return events or None


def _multicall_format(fn):
    """('[ {0} ]', ',') from `"[ {0} ]".format(",".join(...))`, and whether the jobs are iterated in list order.
    Read on the canonical form: a list filled by a `for … append` loop is the list comprehension, a local used once
    by the next statement is the expression it holds (`parts = […]; body = "[ {0} ]".format(",".join(parts))`)."""
    fn = norm.unalias_self_attrs(norm.clone(fn))
    norm.loops_to_comprehensions(fn)
    norm.fold_single_use_locals(fn)
    for n in ast.walk(fn):
        if isinstance(n, ast.Call) and isinstance(n.func, ast.Attribute) and n.func.attr == "format" \
                and isinstance(n.func.value, ast.Constant) and isinstance(n.func.value.value, str) and len(n.args) == 1:
            j = n.args[0]
            if isinstance(j, ast.Call) and isinstance(j.func, ast.Attribute) and j.func.attr == "join" \
                    and isinstance(j.func.value, ast.Constant) and j.args and isinstance(j.args[0], (ast.GeneratorExp, ast.ListComp)):
                comp = j.args[0].generators[0]
                in_order = isinstance(comp.iter, ast.Attribute) and comp.iter.attr == "_job_list" and not comp.ifs
                return (n.func.value.value, j.func.value.value, in_order)
    return None


def _multicall_version(fn):
    for n in ast.walk(fn):
        if isinstance(n, ast.Call) and _name(n.func) == "dumps":
            for kw in n.keywords:
                if kw.arg == "version" and isinstance(kw.value, ast.Constant) and isinstance(kw.value.value, (int, float)):
                    return int(round(kw.value.value * 10))
    return None


def _iterator_positional(cls):
    """(__getitem__ returns get_result(self.results[i]) with the index parameter, __iter__ walks self.results forward)."""
    getitem = it = None
    for f in cls.body:
        if isinstance(f, ast.FunctionDef) and f.name == "__getitem__":
            idx = f.args.args[1].arg if len(f.args.args) > 1 else None
            for s in f.body:
                if isinstance(s, ast.Return) and isinstance(s.value, ast.Call) and len(s.value.args) == 1:
                    a = s.value.args[0]
                    getitem = (isinstance(a, ast.Subscript) and isinstance(a.value, ast.Attribute) and a.value.attr == "results"
                               and _name(a.slice) == idx)
        if isinstance(f, ast.FunctionDef) and f.name == "__iter__":
            for s in f.body:
                if isinstance(s, ast.For):
                    it = isinstance(s.iter, ast.Attribute) and s.iter.attr == "results"
    if getitem is None or it is None:
        return None
    return (bool(getitem), bool(it))


def _own_attrs(cls):
    """Non-dunder names normal lookup finds on an instance: methods/properties and `self.x = …` of __init__ (mangled)."""
    names = set()

    def mangle(n):
        return "_%s%s" % (cls.name.lstrip("_"), n) if n.startswith("__") and not n.endswith("__") else n
    for f in cls.body:
        if isinstance(f, ast.FunctionDef):
            if not (f.name.startswith("__") and f.name.endswith("__")):
                names.add(mangle(f.name))
            if f.name == "__init__":
                for n in ast.walk(f):
                    if isinstance(n, ast.Attribute) and isinstance(n.ctx, ast.Store) and _name(n.value) == "self":
                        names.add(mangle(n.attr))
    return sorted(names)


def _str_test(e, param):
    """`param.startswith(lit)` / `param.endswith(lit)` / `param[:n] == lit` / `param[-n:] == lit` -> (kind, lit)."""
    if isinstance(e, ast.Call) and isinstance(e.func, ast.Attribute) and _name(e.func.value) == param \
            and e.func.attr in ("startswith", "endswith") and len(e.args) == 1 and isinstance(e.args[0], ast.Constant) \
            and isinstance(e.args[0].value, str):
        return (e.func.attr, e.args[0].value)
    if isinstance(e, ast.Compare) and len(e.ops) == 1 and isinstance(e.ops[0], ast.Eq):
        l, r = e.left, e.comparators[0]
        if isinstance(l, ast.Constant):
            l, r = r, l
        if isinstance(r, ast.Constant) and isinstance(r.value, str) and isinstance(l, ast.Subscript) and _name(l.value) == param \
                and isinstance(l.slice, ast.Slice) and l.slice.step is None:
            lo, hi, n = l.slice.lower, l.slice.upper, len(r.value)
            if lo is None and isinstance(hi, ast.Constant) and hi.value == n:
                return ("startswith", r.value)
            if hi is None and isinstance(lo, ast.UnaryOp) and isinstance(lo.op, ast.USub) and isinstance(lo.operand, ast.Constant) \
                    and lo.operand.value == n:
                return ("endswith", r.value)
    return None


def _proxy_getattr(fn):
    """
    ServerProxy.__getattr__(self, name): ((class raised, connective, [(startswith|endswith, literal)..]) for the names it
    refuses, (class built, sender attribute, name argument) for the others).
    """
    if len(fn.args.args) != 2:
        return None
    # canonical form: `if c: raise … else: rest` is `if c: raise …` ; rest, a local returned right after it is bound is
    # the expression it holds
    fn = norm.clone(fn)
    norm.guards_flat(fn.body)
    norm.fold_single_use_locals(fn)
    param = fn.args.args[1].arg
    refuse = ret = None
    for s in fn.body:
        if isinstance(s, ast.Expr) and isinstance(s.value, ast.Constant):
            continue
        if isinstance(s, ast.If) and not s.orelse and refuse is None and ret is None:
            t = s.test
            if isinstance(t, ast.BoolOp):
                conn, parts = ("and" if isinstance(t.op, ast.And) else "or"), [_str_test(v, param) for v in t.values]
            else:
                conn, parts = "and", [_str_test(t, param)]
            cls = _raised(s.body)
            if cls is None or None in parts:
                return None
            refuse = (cls, conn, parts)
        elif isinstance(s, ast.Return) and ret is None:
            v = s.value
            if isinstance(v, ast.Call) and len(v.args) == 2 and not v.keywords and isinstance(v.args[0], ast.Attribute) \
                    and _name(v.args[0].value) == "self":
                ret = (_name(v.func), v.args[0].attr, "name" if _name(v.args[1]) == param else "?")
            else:
                return None
        else:
            return None
    if refuse is None or ret is None or None in ret:
        return None
    return (refuse, ret)


def _self_stores(fn):
    """Attribute names of `self` that the function assigns (any assignment form, setattr, del)."""
    out = set()
    for n in ast.walk(fn):
        if isinstance(n, ast.Attribute) and isinstance(n.ctx, (ast.Store, ast.Del)) and _name(n.value) == "self":
            out.add(n.attr)
        if isinstance(n, ast.Call) and _name(n.func) in ("setattr", "delattr") and n.args and _name(n.args[0]) == "self":
            out.add("?")
        if isinstance(n, ast.Call) and isinstance(n.func, ast.Attribute) and n.func.attr in ("__setattr__", "__dict__", "update"):
            out.add("?")
    return out


def _locals(fn):
    """Locals of the function that are assigned exactly once, at top level, to an expression: name -> expression."""
    env, count = {}, {}
    for n in ast.walk(fn):
        if isinstance(n, ast.Name) and isinstance(n.ctx, ast.Store):
            count[n.id] = count.get(n.id, 0) + 1
    for s in fn.body:
        if isinstance(s, ast.Assign) and len(s.targets) == 1 and isinstance(s.targets[0], ast.Name) and count.get(s.targets[0].id) == 1:
            env[s.targets[0].id] = s.value
    return env


def _deref(e, env):
    seen = 0
    while isinstance(e, ast.Name) and e.id in env and seen < 8:
        e = env[e.id]
        seen += 1
    return e


def _fmt_call(e, param, env=None):
    """`"<fmt>".format(self.<attr>, <param>)` (possibly held in a local) -> (fmt, attr)."""
    e = _deref(e, env or {})
    if isinstance(e, ast.Call) and isinstance(e.func, ast.Attribute) and e.func.attr == "format" and isinstance(e.func.value, ast.Constant) \
            and isinstance(e.func.value.value, str) and len(e.args) == 2 and isinstance(e.args[0], ast.Attribute) \
            and _name(e.args[0].value) == "self" and _name(e.args[1]) == param:
        return (e.func.value.value, e.args[0].attr)
    return None


def _method_getattr(fn):
    """
    _Method.__getattr__(self, name): (names answered with something else than a nested method, format of the nested
    name, whether the result is a NEW `_Method(self.__send, fmt.format(self.__name, name))`, whether the function
    assigns no attribute of `self`).
    """
    if len(fn.args.args) != 2:
        return None
    fn = norm.clone(fn)
    norm.guards_flat(fn.body)
    param = fn.args.args[1].arg
    env = _locals(fn)
    special, fmt, fresh = [], None, False
    for s in fn.body:
        if isinstance(s, ast.If) and isinstance(s.test, ast.Compare) and len(s.test.ops) == 1 and isinstance(s.test.ops[0], ast.Eq) \
                and _name(s.test.left) == param and isinstance(s.test.comparators[0], ast.Constant) and not s.orelse \
                and len(s.body) == 1 and isinstance(s.body[0], ast.Return):
            special.append(s.test.comparators[0].value)
        elif isinstance(s, ast.Return):
            v = _deref(s.value, env)
            if isinstance(v, ast.Call) and len(v.args) == 2 and not v.keywords:
                f = _fmt_call(v.args[1], param, env)
                a0 = _deref(v.args[0], env)
                fresh = (_name(v.func) == "_Method" and isinstance(a0, ast.Attribute) and _name(a0.value) == "self"
                         and a0.attr.endswith("send") and f is not None and f[1].endswith("name"))
                fmt = f[0] if f else fmt
        elif isinstance(s, ast.Assign):
            # an assignment whose value is the formatted name: a local (resolved above) or a store to self (reported
            # through the last flag)
            f = _fmt_call(s.value, param, env)
            fmt = f[0] if f else fmt
    if fmt is None:
        return None
    return (special, fmt, bool(fresh), not _self_stores(fn))


def _job_getattr(fn):
    """MultiCallMethod.__getattr__(self, method): (format, assigns self.method = fmt.format(self.method, method),
    returns self)."""
    if len(fn.args.args) != 2:
        return None
    param = fn.args.args[1].arg
    env = _locals(fn)
    fmt, assigns, ret_self = None, False, False
    for s in fn.body:
        if isinstance(s, ast.Assign) and len(s.targets) == 1 and isinstance(s.targets[0], ast.Attribute) \
                and _name(s.targets[0].value) == "self":
            f = _fmt_call(s.value, param, env)
            if f is not None and f[1] == s.targets[0].attr == "method":
                fmt, assigns = f[0], True
        elif isinstance(s, ast.Return):
            v = _deref(s.value, env)
            ret_self = _name(v) == "self"
            if isinstance(v, ast.Call) and len(v.args) >= 1:
                f = _fmt_call(v.args[-1], param, env) or _fmt_call(v.args[0], param, env)
                fmt = f[0] if f else fmt
    if fmt is None:
        return None
    return (fmt, assigns, ret_self)


def _is_clear(s, attr):
    """`del self.<attr>[:]` / `self.<attr>[:] = []` / `self.<attr> = []` / `self.<attr>.clear()`."""
    def is_attr(e):
        return isinstance(e, ast.Attribute) and _name(e.value) == "self" and e.attr == attr

    def full_slice(e):
        return isinstance(e, ast.Subscript) and is_attr(e.value) and isinstance(e.slice, ast.Slice) \
            and e.slice.lower is None and e.slice.upper is None and e.slice.step is None
    if isinstance(s, ast.Delete) and len(s.targets) == 1 and full_slice(s.targets[0]):
        return True
    if isinstance(s, ast.Assign) and len(s.targets) == 1 and isinstance(s.value, ast.List) and not s.value.elts \
            and (full_slice(s.targets[0]) or is_attr(s.targets[0])):
        return True
    if isinstance(s, ast.Expr) and isinstance(s.value, ast.Call) and isinstance(s.value.func, ast.Attribute) \
            and s.value.func.attr == "clear" and is_attr(s.value.func.value) and not s.value.args:
        return True
    return False


def _multicall_clears(fn):
    """Where MultiCall._request empties `self._job_list`, relative to the `_run_request` call, on the paths that make
    that call and complete normally: 'after-run-request' (on every such path, after the call), 'before-run-request'
    (on every such path, before it), 'conditional' (on some of them only, or on both sides), 'absent'.
    Path-sensitive: the position of the statements in the text does not matter."""
    kinds = set()
    for p in norm.paths(fn.body):
        evs = norm.path_events(p)
        run_at = [i for i, ev in enumerate(evs) if ev[0] == "call" and isinstance(ev[1].func, ast.Attribute) and ev[1].func.attr == "_run_request"]
        if not run_at or any(ev[0] == "except" for ev in evs):
            continue
        clears = [i for i, ev in enumerate(evs) if (ev[0] == "stmt" and _is_clear(ev[1], "_job_list")) or
                  (ev[0] == "call" and _is_clear(ast.Expr(value=ev[1]), "_job_list"))]
        if not clears:
            kinds.add("absent")
        elif all(i > run_at[0] for i in clears):
            kinds.add("after-run-request")
        elif all(i < run_at[0] for i in clears):
            kinds.add("before-run-request")
        else:
            kinds.add("conditional")
    if not kinds:
        return None
    if len(kinds) == 1:
        return kinds.pop()
    return "conditional"


def _getattr_appends(fn, notify):
    """MultiCall.__getattr__ / MultiCallNotify.__getattr__: builds `MultiCallMethod(<name param>, …)`, appends it to the
    job list (`self._job_list` / `self.multicall._job_list`) and returns it."""
    if len(fn.args.args) != 2:
        return None
    # a local alias of the job list (`jobs = self._job_list`, the attribute never re-bound here) is the list itself
    fn = norm.unalias_self_attrs(norm.clone(fn))
    param = fn.args.args[1].arg
    var = None
    appended = returned = False
    for s in fn.body:
        if isinstance(s, ast.Assign) and len(s.targets) == 1 and isinstance(s.value, ast.Call) and _name(s.value.func) == "MultiCallMethod" \
                and s.value.args and _name(s.value.args[0]) == param:
            flag = [k for k in s.value.keywords if k.arg == "notify"]
            is_notify = bool(flag) and isinstance(flag[0].value, ast.Constant) and flag[0].value.value is True
            if is_notify == notify:
                var = _name(s.targets[0])
        elif isinstance(s, ast.Expr) and isinstance(s.value, ast.Call) and isinstance(s.value.func, ast.Attribute) \
                and s.value.func.attr == "append" and isinstance(s.value.func.value, ast.Attribute) \
                and s.value.func.value.attr == "_job_list" and var is not None and s.value.args and _name(s.value.args[0]) == var:
            appended = True
        elif isinstance(s, ast.Return):
            returned = var is not None and _name(s.value) == var
    return bool(appended and returned)


_MUTATORS = ("update", "setdefault", "pop", "popitem", "clear", "append", "extend", "insert", "remove", "add", "discard",
             "sort", "reverse", "__setitem__", "__delitem__", "__setattr__", "__delattr__")
_REGISTRY_FIELDS = ("funcs", "instance", "allow_dotted_names")
_SERVE_METHODS = ("_marshaled_dispatch", "_unmarshaled_dispatch", "_marshaled_single_dispatch", "_dispatch",
                  "_method_exception_fault", "_safe_jdumps")


def _root_chain(e):
    """('self', ['funcs']) for `self.funcs`, `self.funcs[k]`, `self.funcs[k].x` …; None when not rooted at a name."""
    chain = []
    while True:
        if isinstance(e, ast.Attribute):
            chain.append(e.attr)
            e = e.value
        elif isinstance(e, ast.Subscript):
            chain.append("[]")
            e = e.value
        elif isinstance(e, ast.Call) and _name(e.func) in ("getattr", "vars") and e.args:
            chain.append("%s()" % e.func.id)
            e = e.args[0]
        else:
            break
    if isinstance(e, ast.Name):
        return e.id, list(reversed(chain))
    return None


def _request_writes(cls):
    """
    What the methods of SimpleJSONRPCDispatcher that serve a request store into the registry (`self.funcs`,
    `self.instance` and what hangs below them) or into an attribute of `self` itself: assignments, augmented assignments and `del` of attributes and items,
    calls of mutating methods, `setattr` / `delattr`, and caching decorators on these methods (which keep results from
    one request to the next).  A local alias of an attribute of `self` is the attribute.  Sorted "method: what".
    """
    out = set()
    found = 0
    for f in cls.body:
        if not isinstance(f, ast.FunctionDef) or f.name not in _SERVE_METHODS:
            continue
        found += 1
        for d in f.decorator_list:
            txt = ast.unparse(d)
            if any(w in txt.lower() for w in ("cache", "memo")):
                out.add("%s: decorator %s" % (f.name, txt))
        fn = norm.unalias_self_attrs(norm.clone(f))
        # locals that hold (a part of) the object: `funcs = self.funcs` bound more than once, `d = vars(self)` …
        tainted = set()
        for n in ast.walk(fn):
            if isinstance(n, ast.Assign) and len(n.targets) == 1 and isinstance(n.targets[0], ast.Name):
                rc = _root_chain(n.value)
                if rc is not None and rc[0] == "self" and rc[1] and rc[1][0] in _REGISTRY_FIELDS and not isinstance(n.value, ast.Call):
                    tainted.add(n.targets[0].id)
                elif isinstance(n.value, ast.Call) and _name(n.value.func) in ("vars", "getattr") and n.value.args \
                        and _name(n.value.args[0]) == "self":
                    tainted.add(n.targets[0].id)

        def shared(e):
            rc = _root_chain(e)
            if rc is None:
                return None
            if rc[0] == "self" and rc[1] and (rc[1][0] in _REGISTRY_FIELDS or len(rc[1]) == 1):
                return "self." + ".".join(rc[1])
            if rc[0] in tainted and rc[1]:
                return "%s(=self…).%s" % (rc[0], ".".join(rc[1]))
            return None
        for n in ast.walk(fn):
            if isinstance(n, (ast.Attribute, ast.Subscript)) and isinstance(n.ctx, (ast.Store, ast.Del)):
                w = shared(n)
                if w:
                    out.add("%s: %s %s" % (f.name, "del" if isinstance(n.ctx, ast.Del) else "store", w))
            if isinstance(n, ast.Call):
                if isinstance(n.func, ast.Attribute) and n.func.attr in _MUTATORS:
                    rc = _root_chain(n.func.value)
                    if rc is not None and ((rc[0] == "self" and rc[1] and rc[1][0] in _REGISTRY_FIELDS) or rc[0] in tainted):
                        out.add("%s: call %s.%s" % (f.name, ".".join([rc[0]] + rc[1]), n.func.attr))
                if _name(n.func) in ("setattr", "delattr") and n.args:
                    rc = _root_chain(n.args[0])
                    if rc is not None and (rc[0] == "self" or rc[0] in tainted):
                        out.add("%s: %s(%s, …)" % (f.name, n.func.id, ".".join([rc[0]] + rc[1])))
    if found < 4:
        return None
    return sorted(out)


def _multicall_responses(fn):
    """
    MultiCall._request between the exchange and the iterator: (on EVERY path that makes the exchange and returns, what
    is handed to MultiCallIterator is the value `_run_request` returned, `[]` or `[that value]`, and nothing touched the
    value in between: no sorting, reversing, slicing, filtering, rebuilding, no method called on it, not handed to any
    function but isinstance / check_for_errors / len / bool; how the jobs get their ids: 'default' when every
    `job.request()` is called without arguments).  Path-sensitive: early returns, a local holding the iterator, the
    order of the two tests do not matter.
    """
    ids = "default"
    for n in ast.walk(fn):
        if isinstance(n, ast.Call) and isinstance(n.func, ast.Attribute) and n.func.attr == "request" and (n.args or n.keywords):
            ids = "explicit"
    readers = ("isinstance", "check_for_errors", "len", "bool")

    def sym(e, env):
        if isinstance(e, ast.Name):
            return env.get(e.id, "other")
        if isinstance(e, ast.List):
            if not e.elts:
                return "[]"
            if len(e.elts) == 1 and isinstance(e.elts[0], ast.Name) and env.get(e.elts[0].id) == "R":
                return "[R]"
            return "other"
        if isinstance(e, ast.Call) and _name(e.func) == "MultiCallIterator" and len(e.args) == 1 and not e.keywords:
            v = sym(e.args[0], env)
            return "iter" if v in ("R", "[R]", "[]") else "other"
        return "other"

    seen_any, ok = False, True
    for p in norm.paths(fn.body):
        if p.end != "return":
            continue
        env, exchanged, result = {}, False, None
        for ev in norm.path_events(p):
            if ev[0] == "call":
                c = ev[1]
                if isinstance(c.func, ast.Attribute) and c.func.attr == "_run_request":
                    exchanged = True
                    continue
                # the reply (or a list built from it) used by a call: only the readers and the iterator may see it
                for a in list(c.args) + [k.value for k in c.keywords]:
                    for m in ast.walk(a):
                        if isinstance(m, ast.Name) and env.get(m.id) in ("R", "[R]") and _name(c.func) not in readers + ("MultiCallIterator",):
                            env[m.id] = "other"
                if isinstance(c.func, ast.Attribute) and isinstance(c.func.value, ast.Name) and env.get(c.func.value.id) in ("R", "[R]", "[]"):
                    env[c.func.value.id] = "other"      # a method of the list / of the reply: sort, reverse, pop, insert …
                continue
            if ev[0] != "stmt":
                continue
            st = ev[1]
            if isinstance(st, ast.Assign) and len(st.targets) == 1 and isinstance(st.targets[0], ast.Name):
                v = st.value
                if isinstance(v, ast.Call) and isinstance(v.func, ast.Attribute) and v.func.attr == "_run_request":
                    env[st.targets[0].id] = "R"
                else:
                    env[st.targets[0].id] = sym(v, env)
            elif isinstance(st, (ast.Assign, ast.AugAssign, ast.AnnAssign, ast.Delete)):
                tgs = st.targets if isinstance(st, (ast.Assign, ast.Delete)) else [st.target]
                for t in tgs:
                    for m in ast.walk(t):
                        if isinstance(m, ast.Name) and m.id in env:
                            env[m.id] = "other"     # an item / slice / attribute of it is stored or deleted, or it is re-bound oddly
            elif isinstance(st, ast.Return):
                result = "none" if st.value is None or (isinstance(st.value, ast.Constant) and st.value.value is None) else sym(st.value, env)
        if not exchanged:
            continue        # the early return for an empty job list
        seen_any = True
        if result != "iter":
            ok = False
    if not seen_any:
        return None
    return (bool(ok), ids)


_NAME_FUNCS = [("validate_request", "validate_request"),
               ("_marshaled_single_dispatch", "SimpleJSONRPCDispatcher._marshaled_single_dispatch"),
               ("_dispatch", "SimpleJSONRPCDispatcher._dispatch")]
_CONTENT_CALLS = {"len", "any", "all", "iter", "list", "set", "sorted", "tuple", "ord", "hash", "reversed", "enumerate", "map", "filter"}
_CONTENT_MODULES = {"re", "fnmatch", "string", "unicodedata", "keyword"}


def _is_method_key(e):
    """`<x>.get("method"…)` / `<x>["method"]` / `<x>.pop("method"…)`."""
    if isinstance(e, ast.Call) and isinstance(e.func, ast.Attribute) and e.func.attr in ("get", "pop") and e.args:
        k = e.args[0]
        return isinstance(k, ast.Constant) and k.value == "method"
    if isinstance(e, ast.Subscript):
        k = e.slice
        return isinstance(k, ast.Constant) and k.value == "method"
    return False


def _tracked_names(fn, label):
    """The locals that hold the method name: the parameter of _dispatch, anything bound to request["method"], aliases."""
    tracked = set()
    if label == "_dispatch":
        params = [a.arg for a in fn.args.args]
        if len(params) >= 2:
            tracked.add(params[1])
    changed = True
    while changed:
        changed = False
        for n in ast.walk(fn):
            if isinstance(n, ast.Assign) and len(n.targets) == 1 and isinstance(n.targets[0], ast.Name):
                v = n.value
                if _is_method_key(v) or (isinstance(v, ast.Name) and v.id in tracked):
                    if n.targets[0].id not in tracked:
                        tracked.add(n.targets[0].id)
                        changed = True
    return tracked


def _empty_const(e):
    return isinstance(e, ast.Constant) and (e.value is None or e.value == "" or e.value == b"")


def _name_inspections(src):
    """
    Every place on the serve path where the CONTENT of the method name is looked at — beyond its truth value, its type, its
    use as a key of `self.funcs`, as an argument forwarded to a resolver / dispatcher / formatter: attribute access on the
    name (`method.startswith`, `.split`, `.lower` …), comparison with anything but None / "", membership tests, indexing
    or slicing, iteration, `re.*` / `fnmatch.*` / `len` … applied to it.  None when a function is not found.
    """
    out = []
    for label, qual in _NAME_FUNCS:
        fn = src.func("SimpleJSONRPCServer", qual)
        if fn is None:
            return None
        tracked = _tracked_names(fn, label)
        if not tracked:
            return None

        def is_t(e):
            return isinstance(e, ast.Name) and e.id in tracked
        for n in ast.walk(fn):
            if isinstance(n, ast.Attribute) and is_t(n.value):
                out.append("%s:attribute:%s" % (label, n.attr))
            elif isinstance(n, ast.Compare):
                operands = [n.left] + list(n.comparators)
                if any(is_t(o) for o in operands) and not all(is_t(o) or _empty_const(o) for o in operands):
                    out.append("%s:compare" % label)
            elif isinstance(n, ast.Subscript) and is_t(n.value):
                out.append("%s:index" % label)
            elif isinstance(n, (ast.For, ast.comprehension)) and is_t(n.iter):
                out.append("%s:iterate" % label)
            elif isinstance(n, ast.Call) and any(is_t(a) for a in n.args):
                f = n.func
                if isinstance(f, ast.Name) and f.id in _CONTENT_CALLS:
                    out.append("%s:call:%s" % (label, f.id))
                elif isinstance(f, ast.Attribute) and isinstance(f.value, ast.Name) and f.value.id in _CONTENT_MODULES:
                    out.append("%s:call:%s.%s" % (label, f.value.id, f.attr))
            elif isinstance(n, ast.Match) and is_t(n.subject):
                out.append("%s:match" % label)
    return sorted(set(out))


def facts(src):
    src = norm.nsource(src)
    out = []
    fn = src.func("jsonrpc", "_Method.__call__")
    mc = _method_call(fn) if fn is not None else None
    out.append(Fact("methodSendsArgsElseKwargs", "String × String × String × String",
                    None if mc is None else "(%s)" % ", ".join(lean_str(x) for x in mc), ["C01"],
                    "_Method.__call__: (class raised for args and kwargs, what is sent with positional arguments, with "
                    "keywords only, with neither)", json_value=mc))
    fn = src.func("jsonrpc", "ServerProxy._request")
    rr = _request_result(fn) if fn is not None else None
    out.append(Fact("requestReturnsResult", "String × String",
                    None if rr is None or not isinstance(rr[1], str) else "(%s, %s)" % (lean_str(rr[0]), lean_str(rr[1])), ["C01"],
                    "ServerProxy._request: check_for_errors(response) then `return response[<key>]`, the response not "
                    "rebound in between", json_value=rr))
    fn = src.func("jsonrpc", "ServerProxy._run_request")
    ho = _history_order(fn) if fn is not None else None
    out.append(Fact("historyOrder", "List String", None if ho is None else lean_list([lean_str(e) for e in ho]), ["C01"],
                    "ServerProxy._run_request: history and transport events in source order, with the texts they record",
                    json_value=ho))
    fn = src.func("jsonrpc", "MultiCall._request")
    mf = _multicall_format(fn) if fn is not None else None
    out.append(Fact("multicallFormat", "String × String × Bool",
                    None if mf is None else "(%s, %s, %s)" % (lean_str(mf[0]), lean_str(mf[1]), "true" if mf[2] else "false"),
                    ["C01"], "MultiCall._request: body template, separator, jobs rendered in job-list order", json_value=mf))
    fn = src.func("jsonrpc", "MultiCallMethod.request")
    mv = _multicall_version(fn) if fn is not None else None
    out.append(Fact("multicallVersion", "Nat", None if mv is None else "%d" % mv, ["C01"],
                    "MultiCallMethod.request: the version constant handed to dumps (tenths)", json_value=mv))
    cls = src.klass("jsonrpc", "MultiCallIterator")
    ip = _iterator_positional(cls) if cls is not None else None
    out.append(Fact("iteratorPositional", "Bool × Bool",
                    None if ip is None else "(%s, %s)" % tuple("true" if b else "false" for b in ip), ["C01"],
                    "MultiCallIterator: __getitem__(i) reads results[i]; __iter__ walks results forward", json_value=ip))
    cls = src.klass("jsonrpc", "ServerProxy")
    oa = _own_attrs(cls) if cls is not None else None
    out.append(Fact("proxyOwnAttrs", "List String", None if oa is None else lean_list([lean_str(a) for a in oa]), ["C01"],
                    "ServerProxy: non-dunder attribute names found by normal lookup (never reach __getattr__)", json_value=oa))
    fn = src.func("jsonrpc", "ServerProxy.__getattr__")
    pg = _proxy_getattr(fn) if fn is not None else None
    out.append(Fact("proxyGetattrRefuses", "String × String × List (String × String)",
                    None if pg is None else "(%s, %s, %s)" % (lean_str(pg[0][0]), lean_str(pg[0][1]),
                                                             lean_list(["(%s, %s)" % (lean_str(a), lean_str(b)) for a, b in pg[0][2]])),
                    ["C01"], "ServerProxy.__getattr__: the class it raises and the test on the attribute name under which it "
                    "does (which names are refused on the client side)", json_value=None if pg is None else pg[0]))
    out.append(Fact("proxyGetattrReturns", "String × String × String",
                    None if pg is None else "(%s)" % ", ".join(lean_str(x) for x in pg[1]), ["C01"],
                    "ServerProxy.__getattr__: for every other name, (class built, sender, name argument)",
                    json_value=None if pg is None else pg[1]))
    fn = src.func("jsonrpc", "_Method.__getattr__")
    mg = _method_getattr(fn) if fn is not None else None
    out.append(Fact("methodGetattr", "List String × String × Bool × Bool",
                    None if mg is None or not all(isinstance(x, str) for x in mg[0]) else "(%s, %s, %s, %s)" % (
                        lean_list([lean_str(x) for x in mg[0]]), lean_str(mg[1]), "true" if mg[2] else "false", "true" if mg[3] else "false"),
                    ["C01"], "_Method.__getattr__: (names not answered with a nested method, format of the nested name, the result is "
                    "a NEW _Method(self.__send, fmt.format(self.__name, name)), no attribute of self is assigned)", json_value=mg))
    fn = src.func("jsonrpc", "MultiCallMethod.__getattr__")
    jg = _job_getattr(fn) if fn is not None else None
    out.append(Fact("jobGetattr", "String × Bool × Bool",
                    None if jg is None else "(%s, %s, %s)" % (lean_str(jg[0]), "true" if jg[1] else "false", "true" if jg[2] else "false"),
                    ["C01"], "MultiCallMethod.__getattr__: (format, assigns self.method = fmt.format(self.method, name), returns self)",
                    json_value=jg))
    fn = src.func("jsonrpc", "MultiCall._request")
    mcl = _multicall_clears(fn) if fn is not None else None
    out.append(Fact("multicallClearsJobs", "String", None if mcl is None else lean_str(mcl), ["C01"],
                    "MultiCall._request: where the job list is emptied relative to the _run_request statement", json_value=mcl))
    f1, f2 = src.func("jsonrpc", "MultiCall.__getattr__"), src.func("jsonrpc", "MultiCallNotify.__getattr__")
    ga = None if f1 is None or f2 is None else (_getattr_appends(f1, False), _getattr_appends(f2, True))
    out.append(Fact("multicallGetattrAppends", "Bool × Bool",
                    None if ga is None or None in ga else "(%s, %s)" % tuple("true" if b else "false" for b in ga), ["C01"],
                    "MultiCall.__getattr__ / MultiCallNotify.__getattr__: a new MultiCallMethod(name[, notify=True]) is appended to the "
                    "job list at attribute access and returned", json_value=ga))
    fa, fb = src.func("jsonrpc", "_Method.__call__"), src.func("jsonrpc", "MultiCallMethod.__call__")

    def receiver_positional(fn):
        # `def __call__(*args, **kwargs)`: no named parameter a keyword of the remote method could collide with
        a = fn.args
        return not a.args and not a.posonlyargs and not a.kwonlyargs and a.vararg is not None and a.kwarg is not None
    rp = None if fa is None or fb is None else (receiver_positional(fa), receiver_positional(fb))
    out.append(Fact("callReceiverPositional", "Bool × Bool",
                    None if rp is None else "(%s, %s)" % tuple("true" if b else "false" for b in rp), ["C01"],
                    "_Method.__call__ / MultiCallMethod.__call__ take their receiver from *args (any keyword name, `self` included, "
                    "is a keyword of the remote method)", json_value=rp))
    cls = src.klass("SimpleJSONRPCServer", "SimpleJSONRPCDispatcher")
    rw = _request_writes(cls) if cls is not None else None
    out.append(Fact("requestWrites", "List String", None if rw is None else lean_list([lean_str(x) for x in rw]), ["C01"],
                    "SimpleJSONRPCDispatcher: what _marshaled_dispatch / _unmarshaled_dispatch / _marshaled_single_dispatch / "
                    "_dispatch (and their helpers) store into state rooted at self (self.funcs, self.instance …): a request "
                    "must leave the registry as it found it", json_value=rw))
    fn = src.func("jsonrpc", "MultiCall._request")
    mr = _multicall_responses(fn) if fn is not None else None
    out.append(Fact("multicallResponsesUntouched", "Bool", None if mr is None else ("true" if mr[0] else "false"), ["C01"],
                    "MultiCall._request: the list handed to MultiCallIterator is the value _run_request returned ([] when falsy, "
                    "[value] for a single object): not re-ordered, filtered or rebuilt", json_value=None if mr is None else mr[0]))
    out.append(Fact("multicallJobIds", "String", None if mr is None else lean_str(mr[1]), ["C01"],
                    "MultiCall._request: how the jobs get their ids ('default': job.request() without arguments, a fresh uuid each)",
                    json_value=None if mr is None else mr[1]))
    ni = _name_inspections(src)
    out.append(Fact("methodNameInspections", "List String", None if ni is None else lean_list([lean_str(x) for x in ni]), ["C01"],
                    "validate_request / _marshaled_single_dispatch / _dispatch: every place where the CONTENT of the method name is "
                    "looked at (attribute access such as .startswith / .split, comparison with anything but None or \"\", "
                    "membership, indexing, iteration, re.* / len … applied to it) — beyond its truth value, its type, its use as "
                    "key of self.funcs and as an argument forwarded to a resolver, dispatcher or formatter; the variable is "
                    "followed from request[\"method\"] / the parameter of _dispatch, not by its spelling", json_value=ni))
    return out
