"""
Facts about the client call path of jsonrpclib/jsonrpc.py (C01): _Method.__call__, ServerProxy._request,
ServerProxy._run_request (History around the transport), MultiCall / MultiCallMethod / MultiCallIterator, and
the attribute names of ServerProxy that `__getattr__` never sees.
"""
import ast

from __main__ import Fact, lean_str, lean_list

PROPERTIES = ["C01"]


def _name(n):
    return n.id if isinstance(n, ast.Name) else None


def _raised(stmts):
    for s in stmts:
        if isinstance(s, ast.Raise) and isinstance(s.exc, ast.Call) and isinstance(s.exc.func, ast.Name):
            return s.exc.func.id
    return None


def _send_arg(stmts):
    """Second argument name of `return self.__send(self.__name, <arg>)`."""
    for s in stmts:
        if isinstance(s, ast.Return) and isinstance(s.value, ast.Call) and len(s.value.args) == 2:
            return _name(s.value.args[1])
    return None


def _method_call(fn):
    """
    (class raised when `args and kwargs`, argument sent when <test> is truthy, argument sent otherwise, tested name).
    Accepts `if args: send(args) else: send(kwargs)`, the mirrored `if kwargs: send(kwargs) else: send(args)`, their
    negated forms and the early-return forms;
    both are reported as (raise class, what is sent when positional arguments are present, what is sent when only
    keywords are present, what is sent when neither is present).
    """
    both = None
    choose = None
    for i, s in enumerate(fn.body):
        if not isinstance(s, ast.If):
            continue
        t = s.test
        if isinstance(t, ast.BoolOp) and isinstance(t.op, ast.And) and sorted(filter(None, map(_name, t.values))) == ["args", "kwargs"]:
            both = _raised(s.body)
            continue
        # `if not <x>: A else: B` is `if <x>: B else: A`; a branch that returns makes the statements after the `if`
        # the other branch (`if <x>: return A` / `return B`)
        then, other = s.body, s.orelse or fn.body[i + 1:]
        if isinstance(t, ast.UnaryOp) and isinstance(t.op, ast.Not):
            t, then, other = t.operand, other, then
        if _name(t) in ("args", "kwargs"):
            a, b = _send_arg(then), _send_arg(other)
            if a and b:
                choose = (_name(t), a, b)
    if both is None or choose is None:
        return None
    tested, when_true, when_false = choose
    if tested == "args":
        pos, kw, neither = when_true, when_false, when_false
    else:
        pos, kw, neither = when_false, when_true, when_false
    # "neither": both are empty; an empty tuple and an empty dict are sent alike (params omitted / []), so which of the
    # two empty containers is sent does not matter: report "empty" for either
    return (both, pos, kw, "empty" if neither in ("args", "kwargs") else neither)


def _request_result(fn):
    """Statements of ServerProxy._request after the exchange: ('check_for_errors', subscript key returned)."""
    var = None
    checked = False
    for s in fn.body:
        if isinstance(s, ast.Assign) and isinstance(s.value, ast.Call) and isinstance(s.value.func, ast.Attribute) \
                and s.value.func.attr == "_run_request" and len(s.targets) == 1:
            var = _name(s.targets[0])
        elif isinstance(s, ast.Expr) and isinstance(s.value, ast.Call) and _name(s.value.func) == "check_for_errors":
            if var is not None and s.value.args and _name(s.value.args[0]) == var:
                checked = True
        elif isinstance(s, ast.Return):
            v = s.value
            if checked and isinstance(v, ast.Subscript) and _name(v.value) == var and isinstance(v.slice, ast.Constant):
                return ("check_for_errors", v.slice.value)
            return None
        elif isinstance(s, (ast.Assign, ast.AugAssign)) and var is not None:
            # the response is rebound between the exchange and the return
            tg = s.targets[0] if isinstance(s, ast.Assign) else s.target
            if _name(tg) == var:
                return None
    return None


def _history_order(fn):
    """
    Events of ServerProxy._run_request in source order: 'add_request(<request param>)', 'transport',
    'add_response(<transport result>)', 'loads(<transport result>)'; an argument that is not the expected
    variable is reported as such.
    """
    params = [a.arg for a in fn.args.args]
    req = params[1] if len(params) > 1 else None
    resp = None
    events = []
    for n in sorted((m for m in ast.walk(fn) if isinstance(m, (ast.Call, ast.Assign))), key=lambda m: (m.lineno, m.col_offset)):
        if isinstance(n, ast.Assign):
            v = n.value
            if isinstance(v, ast.Call) and isinstance(v.func, ast.Attribute) and v.func.attr == "request" and len(n.targets) == 1:
                resp = _name(n.targets[0])
                events.append("transport")
            elif resp is not None and any(_name(t) == resp for t in n.targets):
                events.append("rebind-response")
            continue
        f = n.func
        if isinstance(f, ast.Attribute) and f.attr == "add_request":
            events.append("add_request" if n.args and _name(n.args[0]) == req else "add_request(?)")
        elif isinstance(f, ast.Attribute) and f.attr == "add_response":
            events.append("add_response" if n.args and resp and _name(n.args[0]) == resp else "add_response(?)")
        elif _name(f) == "loads":
            events.append("loads" if n.args and resp and _name(n.args[0]) == resp else "loads(?)")
    return events or None


def _multicall_format(fn):
    """('[ {0} ]', ',') from `"[ {0} ]".format(",".join(...))`, and whether the jobs are iterated in list order."""
    for n in ast.walk(fn):
        if isinstance(n, ast.Call) and isinstance(n.func, ast.Attribute) and n.func.attr == "format" \
                and isinstance(n.func.value, ast.Constant) and isinstance(n.func.value.value, str) and len(n.args) == 1:
            j = n.args[0]
            if isinstance(j, ast.Call) and isinstance(j.func, ast.Attribute) and j.func.attr == "join" \
                    and isinstance(j.func.value, ast.Constant) and j.args and isinstance(j.args[0], (ast.GeneratorExp, ast.ListComp)):
                comp = j.args[0].generators[0]
                in_order = isinstance(comp.iter, ast.Attribute) and comp.iter.attr == "_job_list" and not comp.ifs
                return (n.func.value.value, j.func.value.value, in_order)
    return None


def _multicall_version(fn):
    for n in ast.walk(fn):
        if isinstance(n, ast.Call) and _name(n.func) == "dumps":
            for kw in n.keywords:
                if kw.arg == "version" and isinstance(kw.value, ast.Constant) and isinstance(kw.value.value, (int, float)):
                    return int(round(kw.value.value * 10))
    return None


def _iterator_positional(cls):
    """(__getitem__ returns get_result(self.results[i]) with the index parameter, __iter__ walks self.results forward)."""
    getitem = it = None
    for f in cls.body:
        if isinstance(f, ast.FunctionDef) and f.name == "__getitem__":
            idx = f.args.args[1].arg if len(f.args.args) > 1 else None
            for s in f.body:
                if isinstance(s, ast.Return) and isinstance(s.value, ast.Call) and len(s.value.args) == 1:
                    a = s.value.args[0]
                    getitem = (isinstance(a, ast.Subscript) and isinstance(a.value, ast.Attribute) and a.value.attr == "results"
                               and _name(a.slice) == idx)
        if isinstance(f, ast.FunctionDef) and f.name == "__iter__":
            for s in f.body:
                if isinstance(s, ast.For):
                    it = isinstance(s.iter, ast.Attribute) and s.iter.attr == "results"
    if getitem is None or it is None:
        return None
    return (bool(getitem), bool(it))


def _own_attrs(cls):
    """Non-dunder names normal lookup finds on an instance: methods/properties and `self.x = …` of __init__ (mangled)."""
    names = set()

    def mangle(n):
        return "_%s%s" % (cls.name.lstrip("_"), n) if n.startswith("__") and not n.endswith("__") else n
    for f in cls.body:
        if isinstance(f, ast.FunctionDef):
            if not (f.name.startswith("__") and f.name.endswith("__")):
                names.add(mangle(f.name))
            if f.name == "__init__":
                for n in ast.walk(f):
                    if isinstance(n, ast.Attribute) and isinstance(n.ctx, ast.Store) and _name(n.value) == "self":
                        names.add(mangle(n.attr))
    return sorted(names)


def facts(src):
    out = []
    fn = src.func("jsonrpc", "_Method.__call__")
    mc = _method_call(fn) if fn is not None else None
    out.append(Fact("methodSendsArgsElseKwargs", "String × String × String × String",
                    None if mc is None else "(%s)" % ", ".join(lean_str(x) for x in mc), ["C01"],
                    "_Method.__call__: (class raised for args and kwargs, what is sent with positional arguments, with "
                    "keywords only, with neither)", json_value=mc))
    fn = src.func("jsonrpc", "ServerProxy._request")
    rr = _request_result(fn) if fn is not None else None
    out.append(Fact("requestReturnsResult", "String × String",
                    None if rr is None or not isinstance(rr[1], str) else "(%s, %s)" % (lean_str(rr[0]), lean_str(rr[1])), ["C01"],
                    "ServerProxy._request: check_for_errors(response) then `return response[<key>]`, the response not "
                    "rebound in between", json_value=rr))
    fn = src.func("jsonrpc", "ServerProxy._run_request")
    ho = _history_order(fn) if fn is not None else None
    out.append(Fact("historyOrder", "List String", None if ho is None else lean_list([lean_str(e) for e in ho]), ["C01"],
                    "ServerProxy._run_request: history and transport events in source order, with the texts they record",
                    json_value=ho))
    fn = src.func("jsonrpc", "MultiCall._request")
    mf = _multicall_format(fn) if fn is not None else None
    out.append(Fact("multicallFormat", "String × String × Bool",
                    None if mf is None else "(%s, %s, %s)" % (lean_str(mf[0]), lean_str(mf[1]), "true" if mf[2] else "false"),
                    ["C01"], "MultiCall._request: body template, separator, jobs rendered in job-list order", json_value=mf))
    fn = src.func("jsonrpc", "MultiCallMethod.request")
    mv = _multicall_version(fn) if fn is not None else None
    out.append(Fact("multicallVersion", "Nat", None if mv is None else "%d" % mv, ["C01"],
                    "MultiCallMethod.request: the version constant handed to dumps (tenths)", json_value=mv))
    cls = src.klass("jsonrpc", "MultiCallIterator")
    ip = _iterator_positional(cls) if cls is not None else None
    out.append(Fact("iteratorPositional", "Bool × Bool",
                    None if ip is None else "(%s, %s)" % tuple("true" if b else "false" for b in ip), ["C01"],
                    "MultiCallIterator: __getitem__(i) reads results[i]; __iter__ walks results forward", json_value=ip))
    cls = src.klass("jsonrpc", "ServerProxy")
    oa = _own_attrs(cls) if cls is not None else None
    out.append(Fact("proxyOwnAttrs", "List String", None if oa is None else lean_list([lean_str(a) for a in oa]), ["C01"],
                    "ServerProxy: non-dunder attribute names found by normal lookup (never reach __getattr__)", json_value=oa))
    return out
