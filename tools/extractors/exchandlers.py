"""
Facts about the `except` handlers of jsonrpclib/threadpool.py that LOG the exception they caught (C09: the handler of
`ThreadPool.__run` around `future.execute`; C16: the handler of `FutureResult.__notify` around the callback).

The exception object belongs to the application (raised by a task / by a callback): its `__str__`, `__repr__`,
`__format__`, `args`, `__bool__`, `__eq__`, `__hash__` are application code and may raise.  A handler CONTAINS the error
only if it uses the caught object OPAQUELY: hands it to the logger as a lazy argument (`logger.exception("... %s", ex)`:
`logging` formats it inside the handlers' own try/except, or not at all), passes it as `exc_info=`, re-raises it,
tests it by identity / `isinstance` / `type`, or gives it another local name.  Everything else evaluates application
code INSIDE the handler - an f-string / `.format()` / `%` / `str()` / `repr()` of it, `ex.args`, `if ex:`, `ex == ...` -
and lets a second exception escape from the `except` clause: out of `__run` (the worker thread dies, the tasks queued
behind are never executed) or out of `__notify` (the callback's error replaces the task's outcome in `execute()` and
reaches whoever called `set_callback()`).

    poolRunLogsExcOpaque    : every logging handler of ThreadPool uses the caught exception opaquely
    futNotifyLogsExcOpaque  : every logging handler of FutureResult uses the caught exception opaquely

Both facts also require that the handler converts NOTHING to a string itself (`eager_conversions`: f-string, `%`,
`.format()`, repr(), str(), format(), ascii() - also in a helper of the class called from the handler): the name of the
failing task handed to the logger (`getattr(method, "__name__", method)`) is application data too - a callable object
or a functools.partial without `__name__` whose `__repr__` / `__str__` raise - and must be formatted by the logger.

A helper method of the same class that is handed the exception (`self.__log_failure(method, ex)`) is followed (two
levels); local aliases (`err = ex`) are followed; `none` when the class has no handler that logs.
"""
import ast

from __main__ import Fact, lean_bool

LOG_METHODS = ("exception", "error", "warning", "warn", "info", "debug", "critical", "fatal", "log")
HARMLESS_CALLS = ("isinstance", "type", "id")
HARMLESS_ATTRS = ("__traceback__", "__class__")


def _is_logger_expr(node, logger_names):
    """`self._logger`, `self.logger`, or a local bound once from it."""
    if isinstance(node, ast.Attribute) and isinstance(node.value, ast.Name) and node.value.id == "self":
        return "logger" in node.attr.lower()
    if isinstance(node, ast.Name):
        return node.id in logger_names
    return False


def _logger_call(call, logger_names):
    return (isinstance(call, ast.Call) and isinstance(call.func, ast.Attribute) and call.func.attr in LOG_METHODS
            and _is_logger_expr(call.func.value, logger_names))


def _logger_aliases(fn):
    names = set()
    for n in ast.walk(fn):
        if isinstance(n, ast.Assign) and len(n.targets) == 1 and isinstance(n.targets[0], ast.Name) \
                and _is_logger_expr(n.value, ()):
            names.add(n.targets[0].id)
    return names


def _parents(stmts):
    par = {}
    for s in stmts:
        for n in ast.walk(s):
            for c in ast.iter_child_nodes(n):
                par[c] = n
    return par


def opaque_uses(stmts, names, methods, logger_names, depth=0):
    """
    True when every use of one of `names` (the caught exception and its aliases) inside `stmts` is opaque.
    `methods`: name -> FunctionDef of the class (helpers are followed, at most two levels deep).
    """
    names = set(names)
    # aliases: `err = ex` (to a fixpoint)
    changed = True
    while changed:
        changed = False
        for s in stmts:
            for n in ast.walk(s):
                if isinstance(n, ast.Assign) and isinstance(n.value, ast.Name) and n.value.id in names:
                    for t in n.targets:
                        if isinstance(t, ast.Name) and t.id not in names:
                            names.add(t.id)
                            changed = True
    par = _parents(stmts)
    for s in stmts:
        for n in ast.walk(s):
            if not (isinstance(n, ast.Name) and n.id in names and isinstance(n.ctx, ast.Load)):
                continue
            p = par.get(n)
            if isinstance(p, ast.Assign) and p.value is n and all(isinstance(t, ast.Name) for t in p.targets):
                continue  # alias
            if isinstance(p, ast.Raise):
                continue  # `raise ex` (whether the handler re-raises is another fact)
            if isinstance(p, ast.Compare) and all(isinstance(o, (ast.Is, ast.IsNot)) for o in p.ops):
                continue
            if isinstance(p, ast.Attribute) and p.attr in HARMLESS_ATTRS:
                continue
            if isinstance(p, ast.keyword) and p.arg == "exc_info":
                continue
            if isinstance(p, ast.Tuple) and isinstance(par.get(p), ast.keyword) and par[p].arg == "exc_info":
                continue
            if isinstance(p, ast.Call) and n in p.args:
                i = p.args.index(n)
                if _logger_call(p, logger_names):
                    first_lazy = 2 if p.func.attr == "log" else 1   # log(level, msg, *args) / exception(msg, *args)
                    if i >= first_lazy:
                        continue
                    return False   # the exception object in the place of the message / level: not the lazy-argument use
                if isinstance(p.func, ast.Name) and p.func.id in HARMLESS_CALLS:
                    continue
                if isinstance(p.func, ast.Attribute) and isinstance(p.func.value, ast.Name) and p.func.value.id == "self" \
                        and depth < 2:
                    helper = methods.get(p.func.attr)
                    if helper is not None:
                        params = [a.arg for a in helper.args.args if a.arg != "self"]
                        if i < len(params) and not any(isinstance(a, ast.Starred) for a in p.args):
                            if opaque_uses(helper.body, {params[i]}, methods, logger_names | _logger_aliases(helper), depth + 1):
                                continue
                return False
            return False
    return True


EAGER_BUILTINS = ("repr", "str", "format", "ascii", "print")


def eager_conversions(stmts):
    """
    String conversions evaluated by the statements themselves (not by the logger): f-strings, `"..." % x`,
    `"...".format(x)` / `x.format(...)`, repr() / str() / format() / ascii().  In a handler that logs, the NAME of the failing
    task is application data as well (a callable object or a functools.partial without `__name__`: its `__repr__` /
    `__str__` may raise): it must reach the logger as a lazy argument, like the exception.
    """
    found = []
    for s in stmts:
        for n in ast.walk(s):
            if isinstance(n, ast.JoinedStr) and any(isinstance(v, ast.FormattedValue) for v in n.values):
                found.append("f-string")
            elif isinstance(n, ast.BinOp) and isinstance(n.op, ast.Mod) and (
                    isinstance(n.left, ast.JoinedStr) or (isinstance(n.left, ast.Constant) and isinstance(n.left.value, str))):
                found.append("%")
            elif isinstance(n, ast.Call) and isinstance(n.func, ast.Name) and n.func.id in EAGER_BUILTINS:
                found.append(n.func.id + "()")
            elif isinstance(n, ast.Call) and isinstance(n.func, ast.Attribute) and n.func.attr in ("format", "format_map",
                                                                                                     "__repr__", "__str__", "__format__"):
                found.append("." + n.func.attr + "()")
    return found


def _class_methods(cls):
    return {n.name: n for n in cls.body if isinstance(n, ast.FunctionDef)}


def logging_handlers_opaque(cls):
    """None when no handler of the class logs; else whether all of them use the caught exception opaquely."""
    if cls is None:
        return None
    methods = _class_methods(cls)
    found, ok = False, True
    for fn in methods.values():
        lnames = _logger_aliases(fn)
        for n in ast.walk(fn):
            if not isinstance(n, ast.Try):
                continue
            for h in n.handlers:
                calls = [c for s in h.body for c in ast.walk(s) if isinstance(c, ast.Call)]
                direct = any(_logger_call(c, lnames) for c in calls)
                via_helper = False
                for c in calls:
                    if isinstance(c.func, ast.Attribute) and isinstance(c.func.value, ast.Name) and c.func.value.id == "self":
                        helper = methods.get(c.func.attr)
                        if helper is not None and any(_logger_call(x, _logger_aliases(helper)) for x in ast.walk(helper)):
                            via_helper = True
                if not (direct or via_helper):
                    continue
                found = True
                # nothing in the handler (or in the helper of the class it calls) converts anything to a string itself
                scanned = list(h.body)
                for c in calls:
                    if isinstance(c.func, ast.Attribute) and isinstance(c.func.value, ast.Name) and c.func.value.id == "self":
                        helper = methods.get(c.func.attr)
                        if helper is not None:
                            scanned += helper.body
                if eager_conversions(scanned):
                    ok = False
                if h.name is None:
                    continue   # nothing bound: nothing of the exception can be evaluated by name
                ok = ok and opaque_uses(h.body, {h.name}, methods, lnames)
    return bool(ok) if found else None


def facts(src):
    out = []
    pool = logging_handlers_opaque(src.klass("threadpool", "ThreadPool"))
    out.append(Fact(
        "poolRunLogsExcOpaque", "Bool", None if pool is None else lean_bool(pool), ["C09"],
        "ThreadPool: the handlers that log a caught exception (__run around future.execute) hand the exception object "
        "to the logger as a lazy argument / exc_info and evaluate nothing of it (no f-string, .format, %, str, repr, "
        ".args, truth value, ==) nor of anything else (the name of the task goes to the logger unformatted: no repr() / str() / "
        "format()): neither an exception object nor a task callable whose special methods raise can make the handler raise",
        json_value=pool))
    fut = logging_handlers_opaque(src.klass("threadpool", "FutureResult"))
    out.append(Fact(
        "futNotifyLogsExcOpaque", "Bool", None if fut is None else lean_bool(fut), ["C16"],
        "FutureResult: the handlers that log a caught exception (__notify around the callback) hand the exception "
        "object to the logger as a lazy argument / exc_info and evaluate nothing of it: a callback exception whose "
        "special methods raise cannot escape from __notify", json_value=fut))
    return out
