"""
Write footprint of the serve path (C13): every store the functions reachable from the entry points of
"serving a request" can make —

    SimpleJSONRPCDispatcher._marshaled_dispatch      (direct use of the dispatcher)
    SimpleJSONRPCRequestHandler.do_POST              (HTTP)
    CGIJSONRPCRequestHandler.handle_jsonrpc          (CGI)

— with its receiver classified as

  fresh   - a local name bound (in that function) to a constructor call, a literal/comprehension, a
            `.copy()` result or the return of a package function that builds a new object
  param   - a parameter of the function that NO call site on the serve path feeds from shared state
            (the request dictionary, the object being dumped/loaded …): request-local data handed down
  selfnew - a direct attribute of `self` inside a method of a per-request class (Fault, Payload, the HTTP
            request handler: one instance per request)
  shared  - anything else: rooted at `self` of the dispatcher/server, a module global, a name bound to an
            attribute of a shared object, a parameter that some call site on the serve path binds to
            `self.<attr>`, to a module global (`config.DEFAULT`), to a default argument that is one, or to
            (an attribute of) a parameter/local that is itself shared (fixpoint over the call graph:
            `jsonclass.load(data, config.classes)` makes `classes` shared because `config` is
            `self.json_config` two calls up)

Stores are: assignment / augmented / annotated assignment / `del` / `for`-target / `with … as` to an attribute
or a subscript (tuple targets flattened), calls of mutator methods, `setattr`/`delattr`/`object.__setattr__`,
`vars(x)[…] = …`, any assignment to a name declared `global`/`nonlocal`, and caching decorators
(`lru_cache`, `cache`, `cached_property`, anything named *cache*/*memo*) on a function of the serve path, which
keep state across requests.

Also extracted: whether every store into a configuration attribute on the serve path is applied to a name bound to
the result of `.copy()`; how `Config.copy` treats `classes` and `serialize_handlers` (a semantic test: the copy's
dictionary is a new object filled from the original's, in any of the usual spellings, and is never the original's
object); and, for every `Fault(...)` / `jsonrpclib.dump(...)` call on the serve path, which configuration it is
handed — the per-request one or the server's.
"""
import ast

from __main__ import Fact, lean_bool, lean_list, lean_str

import importlib.util
import os
import sys


def _load_norm():
    """tools/extractors/normalise_rpc.py, loaded once per process under a name of its own (sys.path is left alone)."""
    name = "jrv_normalise_rpc"
    if name not in sys.modules:
        spec = importlib.util.spec_from_file_location(
            name, os.path.join(os.path.dirname(os.path.abspath(__file__)), "normalise_rpc.py"))
        mod = importlib.util.module_from_spec(spec)
        sys.modules[name] = mod
        spec.loader.exec_module(mod)
    return sys.modules[name]


norm = _load_norm()


PROPERTIES = ["C13"]

MUTATORS = {"setdefault", "append", "update", "pop", "popitem", "add", "remove", "clear", "extend", "insert",
            "discard", "difference_update", "intersection_update", "symmetric_difference_update", "sort", "reverse",
            "appendleft", "extendleft", "__setitem__", "__delitem__", "__setattr__", "__delattr__", "__iadd__", "__ior__"}
SETATTR_FUNCS = {"setattr", "delattr"}
PER_REQUEST_CLASSES = {"Fault", "Payload", "SimpleJSONRPCRequestHandler"}
# modules and (for jsonrpc) the classes whose methods can be on the serve path
SCOPE = {
    "SimpleJSONRPCServer": None,
    "jsonrpc": {"Fault", "Payload", None},      # None = module-level functions
    "jsonclass": None,
    "config": {"Config"},
    "utils": None,
}
# classes of SimpleJSONRPCServer whose methods are set-up/tear-down of a server, not the serving of a request body
SKIP_CLASSES = {"SimpleJSONRPCServer", "PooledJSONRPCServer"}
ROOT = ("SimpleJSONRPCServer", "SimpleJSONRPCDispatcher", "_marshaled_dispatch")
EXTRA_ROOTS = [("SimpleJSONRPCServer", "SimpleJSONRPCRequestHandler", "do_POST"),
               ("SimpleJSONRPCServer", "CGIJSONRPCRequestHandler", "handle_jsonrpc")]
IGNORED_FUNCS = {"__init__"}  # constructors write to the object under construction (fresh by definition)
PACKAGE_ALIASES = {"jsonrpclib": "jsonrpc"}   # `jsonrpclib.loads` is jsonrpc.loads

CONFIG_ATTRS = ("version", "use_jsonclass", "content_type", "user_agent", "serialize_method", "ignore_attribute",
                "classes", "serialize_handlers")


def _functions(src):
    """{(module, class or None, name): FunctionDef}"""
    out = {}
    for mod, allowed in SCOPE.items():
        tree = src.module(mod)
        if tree is None:
            continue
        for n in tree.body:
            if isinstance(n, (ast.FunctionDef, ast.AsyncFunctionDef)):
                if allowed is None or None in allowed:
                    out[(mod, None, n.name)] = n
            elif isinstance(n, ast.ClassDef):
                if mod == "SimpleJSONRPCServer" and n.name in SKIP_CLASSES:
                    continue
                if allowed is not None and n.name not in allowed:
                    continue
                for m in n.body:
                    if isinstance(m, (ast.FunctionDef, ast.AsyncFunctionDef)):
                        out[(mod, n.name, m.name)] = m
    return out


def _calls(fn):
    return [n for n in ast.walk(fn) if isinstance(n, ast.Call)]


def _call_name(call):
    f = call.func
    if isinstance(f, ast.Name):
        return f.id
    if isinstance(f, ast.Attribute):
        return f.attr
    return None


def _by_name(funcs):
    by_name = {}
    for key in funcs:
        by_name.setdefault(key[2], []).append(key)
        if key[2] == "__init__" and key[1]:
            by_name.setdefault(key[1], []).append(key)   # Fault(...) -> Fault.__init__
    return by_name


def _candidates(call, by_name):
    """Functions a call may reach, narrowed by the spelling of the callee when that is unambiguous."""
    name = _call_name(call)
    cands = by_name.get(name, []) if name else []
    if not cands:
        return []
    f = call.func
    narrowed = None
    if isinstance(f, ast.Attribute) and isinstance(f.value, ast.Name):
        v = PACKAGE_ALIASES.get(f.value.id, f.value.id)
        if v in SCOPE:
            narrowed = [k for k in cands if k[0] == v and (k[1] is None or k[2] == "__init__")]
        elif f.value.id in ("self", "cls"):
            narrowed = [k for k in cands if k[1] is not None and k[2] != "__init__"]
    elif isinstance(f, ast.Name):
        narrowed = [k for k in cands if k[1] is None or k[2] == "__init__"]
    return narrowed or cands


def _reachable(funcs, roots):
    by_name = _by_name(funcs)
    seen, todo = set(), list(roots)
    while todo:
        k = todo.pop()
        if k in seen or k not in funcs:
            continue
        seen.add(k)
        for call in _calls(funcs[k]):
            name = _call_name(call)
            for k2 in by_name.get(name, []) if name else []:
                if k2 not in seen:
                    todo.append(k2)
    return seen


def _root_name(expr):
    while isinstance(expr, (ast.Attribute, ast.Subscript, ast.Call, ast.Starred)):
        if isinstance(expr, ast.Call):
            # vars(x) / x.__dict__: the object itself
            if isinstance(expr.func, ast.Name) and expr.func.id == "vars" and expr.args:
                expr = expr.args[0]
            else:
                expr = expr.func
        else:
            expr = expr.value
    return expr.id if isinstance(expr, ast.Name) else None


def _is_fresh_value(v):
    if isinstance(v, (ast.Dict, ast.List, ast.Set, ast.Tuple, ast.ListComp, ast.DictComp, ast.SetComp, ast.Constant,
                      ast.JoinedStr, ast.BinOp, ast.Compare, ast.BoolOp, ast.UnaryOp)):
        # (a BoolOp `x or {}` may hand back x: only literals on both sides are fresh)
        if isinstance(v, ast.BoolOp):
            return all(_is_fresh_value(x) for x in v.values)
        return True
    if isinstance(v, ast.Call):
        # the result of a call bound to a local name is a new object or request data handed back by a
        # callee (whose own stores are scanned separately); `getattr(obj, name)` is an attribute read
        f = v.func
        if isinstance(f, ast.Name) and f.id in ("getattr", "vars", "globals", "locals"):
            return False
        return True
    return False


def _own_nodes(fn):
    """Nodes of fn, not descending into nested function/class definitions (they are not on the path by name)."""
    out = []
    todo = list(ast.iter_child_nodes(fn))
    while todo:
        n = todo.pop()
        out.append(n)
        if isinstance(n, (ast.FunctionDef, ast.AsyncFunctionDef, ast.ClassDef, ast.Lambda)):
            # the body of a nested def runs when called; keep it (conservative): a closure storing into shared state
            # is a store of the enclosing function
            pass
        todo.extend(ast.iter_child_nodes(n))
    return out


def _params(fn):
    a = fn.args
    ps = [x.arg for x in a.posonlyargs + a.args + a.kwonlyargs]
    if a.vararg:
        ps.append(a.vararg.arg)
    if a.kwarg:
        ps.append(a.kwarg.arg)
    return ps


def _is_static(fn):
    return any((isinstance(d, ast.Name) and d.id == "staticmethod") for d in fn.decorator_list)


def _bound_names(fn):
    """Every name the function binds: parameters, assignment/loop/with/except/import/comprehension/walrus targets."""
    names = set(_params(fn))
    for n in ast.walk(fn):
        if isinstance(n, ast.Name) and isinstance(n.ctx, (ast.Store, ast.Del)):
            names.add(n.id)
        elif isinstance(n, ast.ExceptHandler) and n.name:
            names.add(n.name)
        elif isinstance(n, (ast.Import, ast.ImportFrom)):
            for al in n.names:
                names.add((al.asname or al.name).split(".")[0])
    declared = set()
    for n in ast.walk(fn):
        if isinstance(n, (ast.Global, ast.Nonlocal)):
            declared.update(n.names)
    return names - declared, declared


def _local_bindings(fn):
    """{local name: [value expressions it is bound to by plain assignment]}"""
    out = {}
    for n in ast.walk(fn):
        if isinstance(n, ast.Assign):
            for t in n.targets:
                if isinstance(t, ast.Name):
                    out.setdefault(t.id, []).append(n.value)
        elif isinstance(n, ast.AnnAssign) and isinstance(n.target, ast.Name) and n.value is not None:
            out.setdefault(n.target.id, []).append(n.value)
        elif isinstance(n, ast.NamedExpr) and isinstance(n.target, ast.Name):
            out.setdefault(n.target.id, []).append(n.value)
    return out


class _Ctx(object):
    """Per-function facts needed to decide whether an expression denotes shared state."""

    def __init__(self, key, fn):
        self.key = key
        self.fn = fn
        self.cls = key[1]
        self.params = [p for p in _params(fn)]
        self.locals, self.declared = _bound_names(fn)
        self.bindings = _local_bindings(fn)
        self.shared_params = set()


def _expr_shared(ctx, e, depth=0):
    """Does the expression (an argument, or the value a local is bound to) denote (part of) shared state?"""
    if depth > 6:
        return True
    if isinstance(e, ast.Constant) or e is None:
        return False
    if isinstance(e, ast.Call):
        f = e.func
        if isinstance(f, ast.Name) and f.id == "getattr" and e.args:
            return _expr_shared(ctx, e.args[0], depth + 1) or (len(e.args) > 2 and _expr_shared(ctx, e.args[2], depth + 1))
        return False          # a call result: new object / request data (callee stores are scanned on their own)
    if isinstance(e, ast.BoolOp):
        return any(_expr_shared(ctx, x, depth + 1) for x in e.values)
    if isinstance(e, ast.IfExp):
        return _expr_shared(ctx, e.body, depth + 1) or _expr_shared(ctx, e.orelse, depth + 1)
    if isinstance(e, ast.Starred):
        return _expr_shared(ctx, e.value, depth + 1)
    if isinstance(e, (ast.Dict, ast.List, ast.Set, ast.Tuple, ast.ListComp, ast.DictComp, ast.SetComp, ast.GeneratorExp,
                      ast.JoinedStr, ast.BinOp, ast.Compare, ast.UnaryOp, ast.Lambda)):
        return False
    root = _root_name(e)
    if root is None:
        return True
    direct = isinstance(e, ast.Name)
    if root in ("self", "cls"):
        if ctx.cls in PER_REQUEST_CLASSES:
            # the per-request object itself is not shared; what hangs off it may be (self.server, self.config)
            return not direct
        return True
    if root in ctx.declared:
        return True
    if root in ctx.params:
        return root in ctx.shared_params
    if root in ctx.locals:
        return any(_expr_shared(ctx, v, depth + 1) for v in ctx.bindings.get(root, []))
    return True               # a module global / builtin namespace object


def _shared_params(funcs, reach):
    """Fixpoint: parameters that some call site on the serve path binds to shared state."""
    ctxs = {k: _Ctx(k, funcs[k]) for k in reach}
    by_name = _by_name({k: funcs[k] for k in reach})
    # defaults that are not literals are module-level objects shared by every call that omits the argument
    for k, c in ctxs.items():
        a = c.fn.args
        pos = a.posonlyargs + a.args
        for arg, d in zip(pos[len(pos) - len(a.defaults):], a.defaults):
            if not isinstance(d, ast.Constant) and not _is_fresh_value(d):
                c.shared_params.add(arg.arg)
        for arg, d in zip(a.kwonlyargs, a.kw_defaults):
            if d is not None and not isinstance(d, ast.Constant) and not _is_fresh_value(d):
                c.shared_params.add(arg.arg)
    changed = True
    rounds = 0
    while changed and rounds < 50:
        changed = False
        rounds += 1
        for k, c in ctxs.items():
            for call in _calls(c.fn):
                for k2 in _candidates(call, by_name):
                    c2 = ctxs.get(k2)
                    if c2 is None:
                        continue
                    a = c2.fn.args
                    pos = [x.arg for x in a.posonlyargs + a.args]
                    is_method = k2[1] is not None and not _is_static(c2.fn)
                    if is_method and pos:
                        pos = pos[1:]      # bound call: `self` is supplied by the receiver
                    for i, arg in enumerate(call.args):
                        if isinstance(arg, ast.Starred):
                            if _expr_shared(c, arg):
                                for p in pos[i:]:
                                    if p not in c2.shared_params:
                                        c2.shared_params.add(p)
                                        changed = True
                            break
                        target = pos[i] if i < len(pos) else (a.vararg.arg if a.vararg else None)
                        if target and target not in c2.shared_params and _expr_shared(c, arg):
                            c2.shared_params.add(target)
                            changed = True
                    for kw in call.keywords:
                        target = kw.arg if kw.arg in _params(c2.fn) else (a.kwarg.arg if a.kwarg else None)
                        if kw.arg is None:
                            target = None
                            if _expr_shared(c, kw.value):
                                for p in _params(c2.fn):
                                    if p not in ("self", "cls") and p not in c2.shared_params:
                                        c2.shared_params.add(p)
                                        changed = True
                        if target and target not in c2.shared_params and _expr_shared(c, kw.value):
                            c2.shared_params.add(target)
                            changed = True
    return ctxs


def _flatten_targets(t):
    if isinstance(t, (ast.Tuple, ast.List)):
        for x in t.elts:
            for y in _flatten_targets(x):
                yield y
    elif isinstance(t, ast.Starred):
        for y in _flatten_targets(t.value):
            yield y
    else:
        yield t


def _blocks(fn):
    """Every statement list of the function."""
    for n in ast.walk(fn):
        for field in ("body", "orelse", "finalbody"):
            b = getattr(n, field, None)
            if isinstance(b, list) and b and isinstance(b[0], ast.stmt):
                yield b
        if isinstance(n, ast.Try):
            for h in n.handlers:
                yield h.body


def _dominating_binding(fn, node, name):
    """The value of the closest plain assignment `name = <value>` that precedes the statement holding `node` in the
    SAME statement list with nothing but straight-line statements in between, else None."""
    for block in _blocks(fn):
        for i, st in enumerate(block):
            if any(x is node for x in ast.walk(st)):
                if st is not node and not isinstance(st, (ast.Expr, ast.Assign, ast.AugAssign, ast.AnnAssign, ast.Delete)):
                    break          # the store sits deeper (inside an if/for/try of this block): look in that block
                for prev in reversed(block[:i]):
                    if isinstance(prev, ast.Assign) and any(isinstance(t, ast.Name) and t.id == name for t in prev.targets):
                        return prev.value
                    if not isinstance(prev, (ast.Expr, ast.Assign, ast.AugAssign, ast.AnnAssign)):
                        return None
                    if any(isinstance(x, ast.Name) and x.id == name and isinstance(x.ctx, ast.Store) for x in ast.walk(prev)):
                        return None
                return None
    return None


def _is_copy_call(v):
    return isinstance(v, ast.Call) and isinstance(v.func, ast.Attribute) and v.func.attr == "copy" and not v.args


def _classify(ctx, recv, fresh, node=None):
    root = _root_name(recv)
    if root is None:
        return "shared"
    if node is not None and root not in ("self", "cls") and root not in ctx.declared:
        dom = _dominating_binding(ctx.fn, node, root)
        if dom is not None and _is_fresh_value(dom):
            # `config = self.json_config.copy(); config.version = 1.0`: the store hits the object just made,
            # whatever else the name is bound to on other paths
            return "fresh"
    direct = isinstance(recv, ast.Name)
    if root in ("self", "cls"):
        if ctx.cls in PER_REQUEST_CLASSES:
            # `self.x = v` writes the per-request object; `self.server.x = v`, `self.config.x = v` reach beyond it
            # (Fault and Payload hold nothing but request data and a configuration they only read: see `shared_attr`)
            if direct:
                return "selfnew"
            return "shared"
        return "shared"
    if root in ctx.declared:
        return "shared"
    if root in fresh:
        # bound to a call result / literal somewhere in the function — unless it is ALSO bound to shared state
        if any(_expr_shared(ctx, v) for v in ctx.bindings.get(root, []) if not _is_fresh_value(v)):
            return "shared"
        return "fresh"
    if root in ctx.params:
        return "shared" if root in ctx.shared_params else "param"
    if root in ctx.locals and not ctx.bindings.get(root):
        return "fresh"        # loop / with / except / comprehension variable: an element of what is iterated
    if root in ctx.locals:
        return "shared" if any(_expr_shared(ctx, v) for v in ctx.bindings[root]) else "fresh"
    return "shared"


def _is_cache_decorator(d):
    name = None
    if isinstance(d, ast.Call):
        d = d.func
    if isinstance(d, ast.Name):
        name = d.id
    elif isinstance(d, ast.Attribute):
        name = d.attr
    if name is None:
        return None
    low = name.lower()
    if "cache" in low or "memo" in low:
        return name
    return None


def _writes(ctx):
    mod, cls, name = ctx.key
    fn = ctx.fn
    fresh = set()
    copies = set()
    out = []
    for n in ast.walk(fn):
        if isinstance(n, ast.Assign) and len(n.targets) == 1 and isinstance(n.targets[0], ast.Name):
            if _is_fresh_value(n.value):
                fresh.add(n.targets[0].id)
            if isinstance(n.value, ast.Call) and isinstance(n.value.func, ast.Attribute) and n.value.func.attr == "copy":
                copies.add(n.targets[0].id)
    # a name bound to `.copy()` AND to something else (the cached copy of C13-a) is not "the result of copy()"
    for nm in list(copies):
        vals = ctx.bindings.get(nm, [])
        if not vals:
            copies.discard(nm)
    special = []
    for d in fn.decorator_list:
        c = _is_cache_decorator(d)
        if c:
            special.append((fn.lineno, "decorator:" + c, "<function state>", c))
    for n in ast.walk(fn):
        targets = []
        if isinstance(n, ast.Assign):
            targets = [(t, "store") for tt in n.targets for t in _flatten_targets(tt)]
        elif isinstance(n, ast.AugAssign):
            targets = [(n.target, "augstore")]
        elif isinstance(n, ast.AnnAssign) and n.value is not None:
            targets = [(n.target, "store")]
        elif isinstance(n, ast.Delete):
            targets = [(t, "del") for tt in n.targets for t in _flatten_targets(tt)]
        elif isinstance(n, (ast.For, ast.AsyncFor)):
            targets = [(t, "store") for t in _flatten_targets(n.target)]
        elif isinstance(n, (ast.With, ast.AsyncWith)):
            targets = [(t, "store") for it in n.items if it.optional_vars is not None
                       for t in _flatten_targets(it.optional_vars)]
        elif isinstance(n, ast.NamedExpr):
            targets = [(n.target, "store")]
        for t, kind in targets:
            if isinstance(t, (ast.Attribute, ast.Subscript)):
                out.append((n.lineno, kind, t.value, getattr(t, "attr", "[]"), n))
            elif isinstance(t, ast.Name) and t.id in ctx.declared:
                special.append((n.lineno, kind + ":global", t.id, t.id))
        if isinstance(n, ast.Call):
            f = n.func
            if isinstance(f, ast.Attribute) and f.attr in MUTATORS:
                if f.attr in ("__setattr__", "__delattr__") and isinstance(f.value, ast.Name) and f.value.id in ("object", "type") and n.args:
                    what = n.args[1].value if len(n.args) > 1 and isinstance(n.args[1], ast.Constant) else "?"
                    out.append((n.lineno, "call:" + f.attr, n.args[0], what, n))
                else:
                    out.append((n.lineno, "call:" + f.attr, f.value, f.attr, n))
            elif isinstance(f, ast.Name) and f.id in SETATTR_FUNCS and n.args:
                what = n.args[1].value if len(n.args) > 1 and isinstance(n.args[1], ast.Constant) else "?"
                out.append((n.lineno, "call:" + f.id, n.args[0], what, n))
    res = []
    for line, kind, recv, what, node in out:
        c = _classify(ctx, recv, fresh, node)
        dom = _dominating_binding(fn, node, recv.id) if isinstance(recv, ast.Name) else None
        if kind.startswith("call:setattr") or kind.startswith("call:delattr") or kind.startswith("call:__setattr__"):
            # setattr(self, ...) on a per-request object is a direct attribute store
            if isinstance(recv, ast.Name) and recv.id == "self" and ctx.cls in PER_REQUEST_CLASSES:
                c = "selfnew"
            elif isinstance(recv, ast.Name) and recv.id in ("self", "cls"):
                c = "shared"
        res.append({"module": mod, "function": (cls + "." if cls else "") + name, "line": line, "kind": kind,
                    "receiver": ast.unparse(recv), "what": what, "class": c,
                    "on_copy": dom is not None and _is_copy_call(dom)})
    for line, kind, recv, what in special:
        res.append({"module": mod, "function": (cls + "." if cls else "") + name, "line": line, "kind": kind,
                    "receiver": recv, "what": what, "class": "shared", "on_copy": False})
    return res


# ---------------------------------------------------------------------------------------------------------------
# Config.copy


def _is_self_attr(e, attr):
    return isinstance(e, ast.Attribute) and e.attr == attr and isinstance(e.value, ast.Name) and e.value.id == "self"


def _is_dup_of(e, attr):
    """`e` builds a NEW dictionary with the content of `self.<attr>`."""
    if isinstance(e, ast.Call):
        f = e.func
        if isinstance(f, ast.Attribute) and f.attr == "copy" and _is_self_attr(f.value, attr) and not e.args:
            return True                                              # self.X.copy()
        if isinstance(f, ast.Attribute) and f.attr in ("copy", "deepcopy") and e.args and _is_self_attr(e.args[0], attr):
            return True                                              # copy.copy(self.X)
        if isinstance(f, ast.Name) and f.id in ("dict", "LocalClasses", "OrderedDict") and len(e.args) == 1 and (
                _is_self_attr(e.args[0], attr) or _is_items_of(e.args[0], attr)):
            return True                                              # dict(self.X) / LocalClasses(self.X)
        if isinstance(f, ast.Call) and isinstance(f.func, ast.Name) and f.func.id == "type" and len(f.args) == 1 and \
                _is_self_attr(f.args[0], attr) and len(e.args) == 1 and _is_self_attr(e.args[0], attr):
            return True                                              # type(self.X)(self.X)
    if isinstance(e, ast.Dict) and len(e.keys) == 1 and e.keys[0] is None and _is_self_attr(e.values[0], attr):
        return True                                                  # {**self.X}
    if isinstance(e, ast.DictComp) and len(e.generators) == 1 and _is_items_of(e.generators[0].iter, attr):
        return True                                                  # {k: v for k, v in self.X.items()}
    return False


def _is_items_of(e, attr):
    return isinstance(e, ast.Call) and isinstance(e.func, ast.Attribute) and e.func.attr == "items" and \
        _is_self_attr(e.func.value, attr)


def _copy_duplicates(src):
    """(classes duplicated, serialize_handlers duplicated) or None when Config.copy is not of a recognisable shape."""
    cp = src.func("config", "Config.copy")
    init = src.func("config", "Config.__init__")
    if cp is None or init is None:
        return None
    init_params = [a.arg for a in init.args.args][1:]
    # canonical form of "the argument, or a new dictionary": `if X: self.X = X else: self.X = {}`, `X if X else {}` … are
    # `self.X = X or {}`
    init = norm.or_defaults(norm.clone(init))
    # what __init__ does with no/None argument for the field: a new empty dictionary?
    init_fresh = {}
    for n in ast.walk(init):
        if isinstance(n, ast.Assign) and len(n.targets) == 1 and isinstance(n.targets[0], ast.Attribute) and \
                isinstance(n.targets[0].value, ast.Name) and n.targets[0].value.id == "self":
            attr = n.targets[0].attr
            v = n.value
            if isinstance(v, ast.Call) and not v.args and not v.keywords:
                init_fresh[attr] = ("new", None)                     # self.classes = LocalClasses()
            elif isinstance(v, ast.BoolOp) and isinstance(v.op, ast.Or) and isinstance(v.values[0], ast.Name) and \
                    isinstance(v.values[-1], (ast.Dict, ast.Call)):
                init_fresh[attr] = ("param-or-new", v.values[0].id)  # self.X = X or {}
            elif isinstance(v, ast.Name):
                init_fresh[attr] = ("param", v.id)
    new_names = set()
    ctor_calls = []
    for n in ast.walk(cp):
        if isinstance(n, ast.Assign) and len(n.targets) == 1 and isinstance(n.targets[0], ast.Name) and \
                isinstance(n.value, ast.Call) and isinstance(n.value.func, (ast.Name, ast.Attribute)):
            fname = n.value.func.id if isinstance(n.value.func, ast.Name) else n.value.func.attr
            if fname in ("Config", "type", "__class__") or fname == "Config":
                new_names.add(n.targets[0].id)
                ctor_calls.append(n.value)
    if not new_names:
        return None
    res = {}
    for attr in ("classes", "serialize_handlers"):
        state = None      # None unknown, "fresh-empty", "dup", "alias"
        # constructor argument
        for call in ctor_calls:
            arg = None
            for kw in call.keywords:
                if kw.arg == attr:
                    arg = kw.value
            if arg is None and attr in init_params:
                i = init_params.index(attr)
                if i < len(call.args):
                    arg = call.args[i]
            how = init_fresh.get(attr)
            if arg is None or (isinstance(arg, ast.Constant) and arg.value is None):
                if how and how[0] in ("new", "param-or-new"):
                    state = "fresh-empty"
            elif _is_self_attr(arg, attr):
                # `X or {}` keeps the caller's dictionary when it is not empty
                state = "alias"
            elif _is_dup_of(arg, attr):
                state = "dup"
            if how and how[0] == "new":
                state = "fresh-empty"      # __init__ ignores any argument for this field
        # later statements on the new object
        for n in ast.walk(cp):
            if isinstance(n, ast.Assign):
                for t in n.targets:
                    if isinstance(t, ast.Attribute) and t.attr == attr and isinstance(t.value, ast.Name) and t.value.id in new_names:
                        if _is_dup_of(n.value, attr):
                            state = "dup"
                        elif _is_self_attr(n.value, attr):
                            state = "alias"
                        else:
                            state = None
            if isinstance(n, ast.Call) and isinstance(n.func, ast.Attribute) and n.func.attr == "update" and \
                    isinstance(n.func.value, ast.Attribute) and n.func.value.attr == attr and \
                    isinstance(n.func.value.value, ast.Name) and n.func.value.value.id in new_names and \
                    len(n.args) == 1 and (_is_self_attr(n.args[0], attr) or _is_items_of(n.args[0], attr)):
                if state in ("fresh-empty", "dup"):
                    state = "dup"                                      # new.X.update(self.X) on a new dictionary
        if state is None:
            return None
        res[attr] = state == "dup"
    return (res["classes"], res["serialize_handlers"])


# ---------------------------------------------------------------------------------------------------------------
# which configuration every reply-building call is handed


REPLY_BUILDERS = {"Fault", "dump", "dumps"}


def _leaf_values(c, name, seen=None):
    """The expressions a local name can stand for, following `a = b` chains between locals."""
    seen = seen or set()
    if name in seen:
        return []
    seen.add(name)
    out = []
    for v in c.bindings.get(name, []):
        if isinstance(v, ast.Name) and v.id in c.locals and v.id not in c.params:
            out.extend(_leaf_values(c, v.id, seen))
        else:
            out.append(v)
    return out


def _config_sites(ctxs):
    """Sorted, de-duplicated [(function, callee, source)], source in request/server/default/other, for every
    `Fault(...)`, `jsonrpclib.dump(...)` in the dispatcher class and validate_request."""
    out = set()
    for k, c in ctxs.items():
        if k[0] != "SimpleJSONRPCServer":
            continue
        for call in _calls(c.fn):
            name = _call_name(call)
            if name not in REPLY_BUILDERS:
                continue
            f = call.func
            if isinstance(f, ast.Attribute) and not (isinstance(f.value, ast.Name) and f.value.id == "jsonrpclib"):
                continue          # fault.dump(): renders with the configuration the Fault was built with
            cfg = None
            for kw in call.keywords:
                if kw.arg == "config":
                    cfg = kw.value
            if cfg is None:
                src = "default"
            elif _is_self_attr(cfg, "json_config"):
                src = "server"
            elif isinstance(cfg, ast.Name) and cfg.id in c.params:
                # a parameter: the per-request configuration for the dispatch helpers, the server's for validate_request
                src = "server" if cfg.id == "json_config" else "request"
            elif isinstance(cfg, ast.Name) and cfg.id in c.locals:
                vals = _leaf_values(c, cfg.id)
                # the per-request local of _marshaled_single_dispatch: bound to the copy and to the server's object
                # (every value it can hold must be one of the two: a name that can also hold an object read from
                # elsewhere — a cached copy kept on the server, say — is `other`)
                if any(_is_copy_call(v) for v in vals) and all(_is_copy_call(v) or _is_self_attr(v, "json_config") for v in vals):
                    src = "request"
                elif vals and all(_expr_shared(c, v) for v in vals):
                    src = "server"
                else:
                    src = "other"
            else:
                src = "other"
            out.add(((k[1] + "." if k[1] else "") + k[2], "Fault" if name == "Fault" else "dump", src))
    return sorted(out)


def facts(src):
    src = norm.nsource(src)
    funcs = _functions(src)
    if ROOT not in funcs:
        return [Fact("servePathSharedWrites", "List (String × Nat × String)", None, ["C13"], "serve path root not found"),
                Fact("versionStoreOnCopy", "Bool", None, ["C13"], "serve path root not found"),
                Fact("configCopyDuplicates", "Bool × Bool", None, ["C13"], ""),
                Fact("replyConfigSites", "List (String × String × String)", None, ["C13"], "")]
    roots = [ROOT] + [r for r in EXTRA_ROOTS if r in funcs]
    reach = _reachable(funcs, roots)
    ctxs = _shared_params(funcs, reach)
    table = []
    for k in sorted(reach, key=lambda k: (k[0], k[1] or "", k[2])):
        if k[2] in IGNORED_FUNCS:
            continue
        table.extend(_writes(ctxs[k]))
    shared = [w for w in table if w["class"] == "shared"]
    cfg_stores = [w for w in table if w["kind"] in ("store", "augstore", "call:setattr") and w["what"] in CONFIG_ATTRS
                  and w["module"] == "SimpleJSONRPCServer"]
    on_copy = all(w["on_copy"] for w in cfg_stores) if cfg_stores else None
    dup = _copy_duplicates(src)
    sites = _config_sites(ctxs)
    lean_shared = lean_list(["(%s, %d, %s)" % (lean_str(w["module"] + "." + w["function"]), w["line"], lean_str(w["kind"] + " " + w["receiver"]))
                             for w in shared])
    shared_params = {"%s.%s%s" % (k[0], (k[1] + ".") if k[1] else "", k[2]): sorted(c.shared_params)
                     for k, c in ctxs.items() if c.shared_params}
    return [
        Fact("servePathSharedWrites", "List (String × Nat × String)", lean_shared, ["C13"],
             "stores to shared state made by functions reachable from _marshaled_dispatch, do_POST, handle_jsonrpc "
             "(%d functions, %d stores scanned)" % (len(reach), len(table)),
             json_value={"shared": shared, "scanned_functions": sorted("%s.%s%s" % (k[0], (k[1] + ".") if k[1] else "", k[2]) for k in reach),
                         "roots": ["%s.%s.%s" % r for r in roots], "shared_parameters": shared_params,
                         "stores": table}),
        Fact("versionStoreOnCopy", "Bool", None if on_copy is None else lean_bool(on_copy), ["C13"],
             "every store into a configuration attribute on the serve path is applied to a name bound to a .copy() result",
             json_value=on_copy),
        Fact("configCopyDuplicates", "Bool × Bool", None if dup is None else "(%s, %s)" % (lean_bool(dup[0]), lean_bool(dup[1])), ["C13"],
             "Config.copy gives the copy NEW dictionaries filled from the original's (classes, serialize_handlers)", json_value=dup),
        Fact("replyConfigSites", "List (String × String × String)",
             lean_list(["(%s, %s, %s)" % (lean_str(a), lean_str(b), lean_str(c)) for a, b, c in sites]), ["C13"],
             "which configuration every Fault(...)/jsonrpclib.dump(...) call of the dispatcher is handed: the per-request one "
             "(`request`), the server's (`server`), none (`default`) — sorted, de-duplicated (function, callee, source)",
             json_value=sites),
    ]
