"""
Write footprint of the serve path (C13): every store the functions reachable from
SimpleJSONRPCDispatcher._marshaled_dispatch can make, with its receiver classified as

  fresh   - a local name bound (in that function) to a constructor call, a literal/comprehension, a
            `.copy()` result or the return of a package function that builds a new object
  param   - a parameter of the function (the request dictionary, the object being dumped/loaded …):
            request-local data handed down the call chain
  selfnew - `self` inside a method of a per-request class (Fault, Payload)
  shared  - anything else: rooted at `self` of the dispatcher/handler/server, a module global, a
            default argument, a name bound to an attribute of a shared object

and whether the only store into a configuration object (`<x>.version = …`) is applied to a name bound
to the result of `.copy()`.
"""
import ast

from __main__ import Fact, lean_bool, lean_list, lean_str

PROPERTIES = ["C13"]

MUTATORS = {"setdefault", "append", "update", "pop", "popitem", "add", "remove", "clear", "extend", "insert",
            "discard", "difference_update", "sort", "reverse", "__setitem__", "__delitem__"}
PER_REQUEST_CLASSES = {"Fault", "Payload"}
# modules and (for jsonrpc) the classes whose methods can be on the serve path
SCOPE = {
    "SimpleJSONRPCServer": None,
    "jsonrpc": {"Fault", "Payload", None},      # None = module-level functions
    "jsonclass": None,
    "config": {"Config"},
    "utils": None,
}
# classes of SimpleJSONRPCServer whose methods are not part of dispatching a request body
SKIP_CLASSES = {"SimpleJSONRPCServer", "PooledJSONRPCServer", "CGIJSONRPCRequestHandler", "SimpleJSONRPCRequestHandler"}
ROOT = ("SimpleJSONRPCServer", "SimpleJSONRPCDispatcher", "_marshaled_dispatch")
IGNORED_FUNCS = {"__init__"}  # constructors write to the object under construction (fresh by definition)


def _functions(src):
    """{(module, class or None, name): FunctionDef}"""
    out = {}
    for mod, allowed in SCOPE.items():
        tree = src.module(mod)
        if tree is None:
            continue
        for n in tree.body:
            if isinstance(n, ast.FunctionDef):
                if allowed is None or None in allowed:
                    out[(mod, None, n.name)] = n
            elif isinstance(n, ast.ClassDef):
                if mod == "SimpleJSONRPCServer" and n.name in SKIP_CLASSES:
                    continue
                if allowed is not None and n.name not in allowed:
                    continue
                for m in n.body:
                    if isinstance(m, ast.FunctionDef):
                        out[(mod, n.name, m.name)] = m
    return out


def _called_names(fn):
    names = set()
    for n in ast.walk(fn):
        if isinstance(n, ast.Call):
            f = n.func
            if isinstance(f, ast.Name):
                names.add(f.id)
            elif isinstance(f, ast.Attribute):
                names.add(f.attr)
    return names


def _reachable(funcs):
    by_name = {}
    for key in funcs:
        by_name.setdefault(key[2], []).append(key)
        if key[2] == "__init__" and key[1]:
            by_name.setdefault(key[1], []).append(key)   # Fault(...) -> Fault.__init__
    seen, todo = set(), [ROOT]
    while todo:
        k = todo.pop()
        if k in seen or k not in funcs:
            continue
        seen.add(k)
        for name in _called_names(funcs[k]):
            for k2 in by_name.get(name, []):
                if k2 not in seen:
                    todo.append(k2)
    return seen


def _root_name(expr):
    while isinstance(expr, (ast.Attribute, ast.Subscript, ast.Call)):
        expr = expr.value if not isinstance(expr, ast.Call) else expr.func
    return expr.id if isinstance(expr, ast.Name) else None


def _is_fresh_value(v):
    if isinstance(v, (ast.Dict, ast.List, ast.Set, ast.Tuple, ast.ListComp, ast.DictComp, ast.SetComp, ast.Constant, ast.JoinedStr)):
        return True
    if isinstance(v, ast.Call):
        # the result of a call bound to a local name is a new object or request data handed back by a
        # callee (whose own stores are scanned separately); `getattr(obj, name)` is an attribute read
        f = v.func
        if isinstance(f, ast.Name) and f.id == "getattr":
            return False
        return True
    return False


def _classify(fn, cls, recv, params, fresh):
    root = _root_name(recv)
    if root is None:
        return "shared"
    direct = isinstance(recv, ast.Name)
    if root == "self":
        return "selfnew" if cls in PER_REQUEST_CLASSES else "shared"
    if root in fresh and direct:
        return "fresh"
    if root in fresh:
        return "fresh"
    if root in params:
        return "param"
    return "shared"


def _writes(key, fn):
    mod, cls, name = key
    params = {a.arg for a in fn.args.args + fn.args.kwonlyargs} - {"self"}
    fresh = set()
    copies = set()
    out = []
    for n in ast.walk(fn):
        if isinstance(n, ast.Assign) and len(n.targets) == 1 and isinstance(n.targets[0], ast.Name):
            if _is_fresh_value(n.value):
                fresh.add(n.targets[0].id)
            if isinstance(n.value, ast.Call) and isinstance(n.value.func, ast.Attribute) and n.value.func.attr == "copy":
                copies.add(n.targets[0].id)
    for n in ast.walk(fn):
        targets = []
        if isinstance(n, ast.Assign):
            targets = [(t, "store") for t in n.targets]
        elif isinstance(n, ast.AugAssign):
            targets = [(n.target, "augstore")]
        elif isinstance(n, ast.Delete):
            targets = [(t, "del") for t in n.targets]
        for t, kind in targets:
            if isinstance(t, (ast.Attribute, ast.Subscript)):
                out.append((n.lineno, kind, t.value, getattr(t, "attr", "[]")))
        if isinstance(n, ast.Call) and isinstance(n.func, ast.Attribute) and n.func.attr in MUTATORS:
            out.append((n.lineno, "call:" + n.func.attr, n.func.value, n.func.attr))
    res = []
    for line, kind, recv, what in out:
        c = _classify(fn, cls, recv, params, fresh)
        res.append({"module": mod, "function": (cls + "." if cls else "") + name, "line": line, "kind": kind,
                    "receiver": ast.unparse(recv), "what": what, "class": c,
                    "on_copy": isinstance(recv, ast.Name) and recv.id in copies})
    return res


def facts(src):
    funcs = _functions(src)
    if ROOT not in funcs:
        return [Fact("servePathSharedWrites", "List (String × Nat × String)", None, ["C13"], "serve path root not found"),
                Fact("versionStoreOnCopy", "Bool", None, ["C13"], "serve path root not found"),
                Fact("configCopyDuplicates", "Bool × Bool", None, ["C13"], "")]
    reach = _reachable(funcs)
    table = []
    for k in sorted(reach, key=lambda k: (k[0], k[1] or "", k[2])):
        if k[2] in IGNORED_FUNCS:
            continue
        table.extend(_writes(k, funcs[k]))
    shared = [w for w in table if w["class"] == "shared"]
    cfg_stores = [w for w in table if w["kind"] in ("store", "augstore") and w["what"] in
                  ("version", "use_jsonclass", "content_type", "user_agent", "serialize_method", "ignore_attribute",
                   "classes", "serialize_handlers") and w["module"] == "SimpleJSONRPCServer"]
    on_copy = all(w["on_copy"] for w in cfg_stores) if cfg_stores else None
    if not cfg_stores:
        # no configuration store at all on the serve path: nothing to dominate; report how versions are adapted
        on_copy = None
    # Config.copy duplicates both dictionaries
    dup = None
    cp = src.func("config", "Config.copy")
    if cp is not None:
        d = {}
        for n in ast.walk(cp):
            if isinstance(n, ast.Assign) and len(n.targets) == 1 and isinstance(n.targets[0], ast.Attribute):
                attr = n.targets[0].attr
                if attr in ("classes", "serialize_handlers"):
                    v = n.value
                    d[attr] = (isinstance(v, ast.Call) and isinstance(v.func, ast.Attribute) and v.func.attr == "copy") or \
                              (isinstance(v, ast.Call) and isinstance(v.func, ast.Name) and v.func.id in ("dict", "LocalClasses") and bool(v.args))
        if "classes" in d and "serialize_handlers" in d:
            dup = (d["classes"], d["serialize_handlers"])
    lean_shared = lean_list(["(%s, %d, %s)" % (lean_str(w["module"] + "." + w["function"]), w["line"], lean_str(w["kind"] + " " + w["receiver"]))
                             for w in shared])
    return [
        Fact("servePathSharedWrites", "List (String × Nat × String)", lean_shared, ["C13"],
             "stores to shared state made by functions reachable from _marshaled_dispatch (%d functions, %d stores scanned)"
             % (len(reach), len(table)),
             json_value={"shared": shared, "scanned_functions": sorted("%s.%s%s" % (k[0], (k[1] + ".") if k[1] else "", k[2]) for k in reach),
                         "stores": table}),
        Fact("versionStoreOnCopy", "Bool", None if on_copy is None else lean_bool(on_copy), ["C13"],
             "every store into a configuration attribute on the serve path is applied to a name bound to a .copy() result",
             json_value=on_copy),
        Fact("configCopyDuplicates", "Bool × Bool", None if dup is None else "(%s, %s)" % (lean_bool(dup[0]), lean_bool(dup[1])), ["C13"],
             "Config.copy assigns copies of (classes, serialize_handlers)", json_value=dup),
    ]
