"""
Facts about jsonrpclib/threadpool.py — EventData / FutureResult (C16).

  futLockDiscipline     per critical region (set_callback, the `finally` of execute): labels of the statements
                        inside `with self.__lock` and of the statements touching __callback/__extra/__completed
                        outside it (sorted: statements inside one critical section are independent)
  futNotifyOutsideLock  per region: the __notify call is outside (after) the `with`, and is given the pair the
                        region itself registered / captured under the lock
  eventStoreOrder       EventData.set / raise_exception: which of the stores precede `self.__event.set()`
  notifyContains        __notify: the callback is called inside try / except <class> that logs and does not re-raise
  executeShape          execute: try(call) / except Exception(raise_exception, raise) / else(set) / finally(lock, notify)
  waitGuard             EventData.wait consults __exception only when the event wait returned True
  notifyGuard           __notify: shape of the test that guards the call of the callback ("isNotNone" for
                        `callback is not None`; "truthy" for `if callback:` -- a falsy callable would be skipped)
  waitTimeoutForwarded  FutureResult.result passes its `timeout` parameter unchanged to `_done_event.wait`, and
                        EventData.wait passes its own unchanged to `self.__event.wait` (no `timeout or None`)

The methods are read through tools/extractors/normalise.py (helpers the model has no step for are inlined where they are
called, acquire/try/finally-release is a `with`, aliases of `_done_event` / the lock are resolved), and the guards
(waitGuard, notifyGuard) are computed from the conditions that dominate a statement - enclosing ifs, guard clauses with
an early return, the operands of a short-circuit test evaluated before it - not from the shape of one `if`.
"""
import ast
import importlib.util
import os

from __main__ import Fact, lean_str, lean_list, lean_bool


def _load_normaliser():
    path = os.path.join(os.path.dirname(os.path.abspath(__file__)), "normalise.py")
    spec = importlib.util.spec_from_file_location("extractors_normalise_shared", path)
    mod = importlib.util.module_from_spec(spec)
    spec.loader.exec_module(mod)
    return mod


N = _load_normaliser()

PROPERTIES = ["C16"]
PROTECTED = ("__callback", "__extra", "__completed")
# the methods the model of the future has steps for (never inlined)
FUTURE_ANCHORS = ("__init__", "__notify", "set_callback", "execute", "done", "result")
EVENT_ANCHORS = ("__init__", "data", "exception", "clear", "is_set", "set", "raise_exception", "wait")


def _self_attr(node):
    if isinstance(node, ast.Attribute) and isinstance(node.value, ast.Name) and node.value.id == "self":
        return node.attr
    return None


def _is_lock_with(st):
    return isinstance(st, ast.With) and any(_self_attr(i.context_expr) == "__lock" for i in st.items)


def _label(st):
    """Label of a simple statement touching a protected attribute, None when it touches none."""
    touched = sorted({a for n in ast.walk(st) for a in [_self_attr(n)] if a in PROTECTED})
    if not touched:
        return None
    if isinstance(st, ast.Assign) and len(st.targets) == 1:
        tgt, val = st.targets[0], st.value
        ta, va = _self_attr(tgt), _self_attr(val)
        if ta == "__callback" and isinstance(val, ast.Name):
            return "storeCb"
        if ta == "__extra" and isinstance(val, ast.Name):
            return "storeExtra"
        if ta == "__completed" and isinstance(val, ast.Constant) and val.value is True:
            return "setCompleted"
        if isinstance(tgt, ast.Name) and va == "__completed":
            return "readCompleted"
        if isinstance(tgt, ast.Name) and va == "__callback":
            return "readCb"
        if isinstance(tgt, ast.Name) and va == "__extra":
            return "readExtra"
    try:
        return "other:" + ast.unparse(st).split("\n")[0][:50]
    except Exception:  # pragma: no cover
        return "other"


def _simple_statements(body, inside_lock=False):
    """(statement, inside a `with self.__lock`?) for every simple statement / block header, recursively."""
    for st in body:
        if _is_lock_with(st):
            for x in _simple_statements(st.body, True):
                yield x
            continue
        if isinstance(st, (ast.If, ast.While, ast.For, ast.With, ast.Try)):
            hdr = st.test if isinstance(st, (ast.If, ast.While)) else None
            if hdr is not None:
                yield (ast.Expr(value=hdr), inside_lock)
            for field in ("body", "orelse", "finalbody"):
                for x in _simple_statements(getattr(st, field, []) or [], inside_lock):
                    yield x
            for h in getattr(st, "handlers", []) or []:
                for x in _simple_statements(h.body, inside_lock):
                    yield x
        else:
            yield (st, inside_lock)


def _notify_calls(body, inside_lock=False):
    for st, inside in _simple_statements(body, inside_lock):
        for n in ast.walk(st):
            if isinstance(n, ast.Call) and isinstance(n.func, ast.Attribute) and n.func.attr.endswith("__notify") \
                    and isinstance(n.func.value, ast.Name) and n.func.value.id == "self":
                yield n, inside


def _region(body):
    inside, outside = [], []
    stored = {}    # protected attribute -> local name stored into it / read from it under the lock
    for st, locked in _simple_statements(body):
        lab = _label(st)
        if lab is None:
            continue
        (inside if locked else outside).append(lab)
        if locked and isinstance(st, ast.Assign):
            tgt, val = st.targets[0], st.value
            if _self_attr(tgt) in ("__callback", "__extra") and isinstance(val, ast.Name):
                stored[_self_attr(tgt)] = val.id
            if isinstance(tgt, ast.Name) and _self_attr(val) in ("__callback", "__extra"):
                stored[_self_attr(val)] = tgt.id
    calls = list(_notify_calls(body))
    if len(calls) == 1:
        call, locked = calls[0]
        args = [a.id if isinstance(a, ast.Name) else None for a in call.args]
        forwards = (len(args) == 2 and args[0] is not None and args[0] == stored.get("__callback")
                    and args[1] is not None and args[1] == stored.get("__extra"))
        notify = (not locked, forwards)
    else:
        notify = (False, False)
    return sorted(inside), sorted(outside), notify


def _find_try(fn):
    for st in fn.body:
        if isinstance(st, ast.Try):
            return st
    return None


def _event_order(fn):
    before, after, seen_set = [], [], False
    for st in fn.body:
        if isinstance(st, ast.Expr) and isinstance(st.value, ast.Call) and isinstance(st.value.func, ast.Attribute) \
                and st.value.func.attr == "set" and _self_attr(st.value.func.value) == "__event":
            seen_set = True
            continue
        if isinstance(st, ast.Assign):
            targets = list(st.targets)
            while targets:
                t = targets.pop(0)
                if isinstance(t, (ast.Tuple, ast.List)):
                    targets = list(t.elts) + targets
                    continue
                lab = {"__data": "sData", "__exception": "sExc"}.get(_self_attr(t))
                if lab:
                    (after if seen_set else before).append(lab)
    if not seen_set:
        return None
    return sorted(before), sorted(after)


def _notify_contains(fn):
    params = [a.arg for a in fn.args.args if a.arg != "self"]
    if not params:
        return None
    for n in ast.walk(fn):
        if isinstance(n, ast.Try):
            called = any(isinstance(c, ast.Call) and isinstance(c.func, ast.Name) and c.func.id == params[0]
                         for s in n.body for c in ast.walk(s))
            if not called or not n.handlers:
                continue
            classes, reraises, logs = set(), False, True
            for h in n.handlers:
                classes |= (N.handler_classes(h) if h.type is not None else {""})
                reraises = reraises or any(isinstance(x, ast.Raise) for s in h.body for x in ast.walk(s))
                logs = logs and any(isinstance(c, ast.Call) and isinstance(c.func, ast.Attribute) and c.func.attr == "exception"
                                    and isinstance(c.func.value, ast.Attribute) and c.func.value.attr == "_logger"
                                    for s in h.body for c in ast.walk(s))
            return "|".join(sorted(classes)), not reraises, logs
    return None


def _execute_shape(fn):
    params = [a.arg for a in fn.args.args if a.arg != "self"]
    t = _find_try(fn)
    if t is None or not params:
        return None

    def done_event_calls(stmts):
        out = []
        for s in stmts:
            for c in ast.walk(s):
                if isinstance(c, ast.Call) and isinstance(c.func, ast.Attribute) \
                        and isinstance(c.func.value, ast.Attribute) and c.func.value.attr == "_done_event":
                    out.append(c.func.attr)
        return out
    shape = []
    calls = any(isinstance(c, ast.Call) and isinstance(c.func, ast.Name) and c.func.id == params[0]
                for s in t.body for c in ast.walk(s))
    shape.append("try:" + ("call" if calls else "") + ",".join([""] + done_event_calls(t.body)).rstrip(","))
    for h in t.handlers:
        cls = h.type.id if isinstance(h.type, ast.Name) else "?"
        acts = done_event_calls(h.body)
        if any(isinstance(s, ast.Raise) and s.exc is None for s in h.body):
            acts.append("raise")
        shape.append("except %s:%s" % (cls, ",".join(acts)))
    shape.append("else:" + ",".join(done_event_calls(t.orelse)))
    fin = []
    if any(_is_lock_with(s) for s in t.finalbody):
        fin.append("lock")
    if list(_notify_calls(t.finalbody)):
        fin.append("notify")
    shape.append("finally:" + ",".join(fin))
    after = [s for s in fn.body[fn.body.index(t) + 1:]]
    if after:
        shape.append("after:%d" % len(after))
    return shape


def _wait_guard(fn):
    """
    `r = self.__event.wait(...)`: every read of `self.__exception` (in a test, a return, a raise) happens where `r` is
    known to be true, every return hands back `r`, and one of them is reachable when `r` is false (the time-out path).
    """
    items = N.walk(fn, ())
    var = None
    for it in items:
        st = it.node
        if it.kind == "stmt" and isinstance(st, ast.Assign) and len(st.targets) == 1 and isinstance(st.targets[0], ast.Name) \
                and isinstance(st.value, ast.Call) and isinstance(st.value.func, ast.Attribute) and st.value.func.attr == "wait":
            var = st.targets[0].id
    reads = [it for it in items if any(_self_attr(n) == "__exception" and isinstance(n.ctx, ast.Load)
                                       for n in ast.walk(it.node))]
    if var is None or not reads:
        return None
    guarded = all(var in it.keys() for it in reads)
    returns = [it for it in items if it.kind == "stmt" and isinstance(it.node, ast.Return)]
    returns_var = bool(returns) and all(isinstance(r.node.value, ast.Name) and r.node.value.id == var for r in returns) \
        and any(var not in r.keys() for r in returns)
    return bool(guarded and returns_var)


def _calls_param(node, param):
    return any(isinstance(c, ast.Call) and isinstance(c.func, ast.Name) and c.func.id == param for c in ast.walk(node))


def _guard_shape(lit, param):
    test, pol = lit
    if pol and isinstance(test, ast.Compare) and len(test.ops) == 1 and isinstance(test.left, ast.Name) \
            and test.left.id == param and isinstance(test.comparators[0], ast.Constant) \
            and test.comparators[0].value is None:
        op = test.ops[0]
        if isinstance(op, ast.IsNot):
            return "isNotNone"
        if isinstance(op, ast.NotEq):
            return "neNone"
    if pol and isinstance(test, ast.Name) and test.id == param:
        return "truthy"
    return "other:" + N.lit_key(lit)[:50]


def _notify_guard(fn):
    """What is known whenever the callback is called: "unguarded" (nothing), the shape of the single literal
    (`callback is not None` whether written as an enclosing if or as `if callback is None: return`), or "other:..."."""
    params = [a.arg for a in fn.args.args if a.arg != "self"]
    if not params or not _calls_param(fn, params[0]):
        return None
    param = params[0]
    shapes = set()
    for it in N.walk(fn, ()):
        if not _calls_param(it.node, param):
            continue
        lits = [N.positive(c, ordering=False) for c in it.conds]
        if not lits:
            shapes.add("unguarded")
        elif len(lits) == 1:
            shapes.add(_guard_shape(lits[0], param))
        else:
            shapes.add(("other:" + " and ".join(N.lit_key(c) for c in lits))[:56])
    return shapes.pop() if len(shapes) == 1 else "other:several-call-sites"


def _forwards_timeout(fn, receiver):
    """The single `<receiver>.wait(...)` call of fn gets fn's own timeout parameter, as it is (by position or keyword)."""
    params = [a.arg for a in fn.args.args if a.arg != "self"]
    if not params:
        return None
    calls = [c for c in ast.walk(fn) if isinstance(c, ast.Call) and isinstance(c.func, ast.Attribute)
             and c.func.attr == "wait" and receiver(c.func.value)]
    if len(calls) != 1:
        return None
    c = calls[0]
    args = list(c.args) + [k.value for k in c.keywords if k.arg == "timeout"]
    return len(args) == 1 and isinstance(args[0], ast.Name) and args[0].id == params[0]


def _str_list(xs):
    return lean_list([lean_str(x) for x in xs])


def facts(src):
    out = []
    mod = src.module("threadpool")
    fcls, ecls = src.klass("threadpool", "FutureResult"), src.klass("threadpool", "EventData")
    fut = N.normalised_methods(fcls, FUTURE_ANCHORS, module=mod)
    evt = N.normalised_methods(ecls, EVENT_ANCHORS, module=mod)
    setcb = fut.get("set_callback")
    execute = fut.get("execute")
    notify = fut.get("__notify")
    ev_set = evt.get("set")
    ev_raise = evt.get("raise_exception")
    ev_wait = evt.get("wait")
    fut_result = fut.get("result")
    regions = None
    if setcb is not None and execute is not None:
        t = _find_try(execute)
        regions = [("set_callback", _region(setcb.body)), ("execute.finally", _region(t.finalbody if t is not None else []))]
    out.append(Fact(
        "futLockDiscipline", "List (String × List String × List String)",
        None if regions is None else lean_list(
            ["(%s, %s, %s)" % (lean_str(n), _str_list(r[0]), _str_list(r[1])) for n, r in regions]),
        PROPERTIES, "FutureResult: statements on __callback/__extra/__completed inside / outside `with self.__lock`, per region",
        json_value=None if regions is None else [[n, r[0], r[1]] for n, r in regions]))
    out.append(Fact(
        "futNotifyOutsideLock", "List (String × Bool × Bool)",
        None if regions is None else lean_list(
            ["(%s, %s, %s)" % (lean_str(n), lean_bool(r[2][0]), lean_bool(r[2][1])) for n, r in regions]),
        PROPERTIES, "FutureResult: the single __notify call of each region is outside the lock and receives the pair stored/captured under it",
        json_value=None if regions is None else [[n, r[2][0], r[2][1]] for n, r in regions]))
    orders = None
    if ev_set is not None and ev_raise is not None:
        o1, o2 = _event_order(ev_set), _event_order(ev_raise)
        if o1 is not None and o2 is not None:
            orders = [("set", o1), ("raise_exception", o2)]
    out.append(Fact(
        "eventStoreOrder", "List (String × List String × List String)",
        None if orders is None else lean_list(
            ["(%s, %s, %s)" % (lean_str(n), _str_list(o[0]), _str_list(o[1])) for n, o in orders]),
        PROPERTIES, "EventData.set / raise_exception: stores before / after `self.__event.set()`", json_value=orders))
    nc = _notify_contains(notify) if notify is not None else None
    out.append(Fact(
        "notifyContains", "String × Bool × Bool",
        None if nc is None else "(%s, %s, %s)" % (lean_str(nc[0]), lean_bool(nc[1]), lean_bool(nc[2])),
        PROPERTIES, "__notify: class caught around the callback call, handler does not re-raise, handler logs", json_value=nc))
    shape = _execute_shape(execute) if execute is not None else None
    out.append(Fact(
        "executeShape", "List String", None if shape is None else _str_list(shape),
        PROPERTIES, "execute: what each part of the try statement around the task call does", json_value=shape))
    wg = _wait_guard(ev_wait) if ev_wait is not None else None
    out.append(Fact(
        "waitGuard", "Bool", None if wg is None else lean_bool(wg),
        PROPERTIES, "EventData.wait: __exception is consulted only when the event wait returned True", json_value=wg))
    ng = _notify_guard(notify) if notify is not None else None
    out.append(Fact(
        "notifyGuard", "String", None if ng is None else lean_str(ng),
        PROPERTIES, "__notify: the test guarding the call of the callback (identity with None, not truthiness)", json_value=ng))
    fw = None
    if fut_result is not None and ev_wait is not None:
        f1 = _forwards_timeout(fut_result, lambda v: isinstance(v, ast.Attribute) and v.attr == "_done_event")
        f2 = _forwards_timeout(ev_wait, lambda v: _self_attr(v) == "__event")
        if f1 is not None and f2 is not None:
            fw = (bool(f1), bool(f2))
    out.append(Fact(
        "waitTimeoutForwarded", "Bool × Bool", None if fw is None else "(%s, %s)" % (lean_bool(fw[0]), lean_bool(fw[1])),
        PROPERTIES, "result(timeout) -> EventData.wait(timeout) -> Event.wait(timeout): the timeout is forwarded unchanged",
        json_value=None if fw is None else list(fw)))
    return out
