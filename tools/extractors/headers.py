"""
Facts about the client's custom-header handling in jsonrpclib/jsonrpc.py (C18).
"""
import ast

from __main__ import Fact, lean_bool, lean_list, lean_str

PROPERTIES = ["C18"]


def _readonly(src):
    cls = src.klass("jsonrpc", "TransportMixIn")
    if cls is None:
        return None
    v = src.assign_value("jsonrpc", "readonly_headers", scope=cls)
    if isinstance(v, (ast.Tuple, ast.List)) and all(isinstance(e, ast.Constant) and isinstance(e.value, str) for e in v.elts):
        return [e.value for e in v.elts]
    return None


def _is_lower_call(node):
    return (isinstance(node, ast.Call) and isinstance(node.func, ast.Attribute) and node.func.attr == "lower")


def _merge_lowercases(fn):
    """
    True when every store into the merged dictionary made while iterating over the pushed dictionaries
    uses a lower-cased key (so the merge itself is case-insensitive); False when a plain key or `update()`
    is used there; None when the loop is not found.
    """
    for n in ast.walk(fn):
        if isinstance(n, ast.For) and isinstance(n.iter, ast.Attribute) and n.iter.attr == "additional_headers":
            stores = []
            for m in ast.walk(n):
                if isinstance(m, ast.Call) and isinstance(m.func, ast.Attribute) and m.func.attr == "update":
                    stores.append(False)
                if isinstance(m, ast.Assign):
                    for t in m.targets:
                        if isinstance(t, ast.Subscript):
                            stores.append(_is_lower_call(t.slice))
            if not stores:
                return None
            return all(stores)
    return None


def _pop_in_finally(fn):
    """True when the `yield` of _additional_headers sits in a try whose finally calls pop_headers."""
    for n in ast.walk(fn):
        if isinstance(n, ast.Try) and n.finalbody:
            has_yield = any(isinstance(m, (ast.Yield, ast.YieldFrom)) for s in n.body for m in ast.walk(s))
            pops = any(isinstance(m, ast.Attribute) and m.attr == "pop_headers" for s in n.finalbody for m in ast.walk(s))
            if has_yield:
                return bool(pops)
    has_any_yield = any(isinstance(m, (ast.Yield, ast.YieldFrom)) for m in ast.walk(fn))
    return False if has_any_yield else None


def facts(src):
    ro = _readonly(src)
    emit = src.func("jsonrpc", "TransportMixIn.emit_additional_headers")
    blk = src.func("jsonrpc", "ServerProxy._additional_headers")
    ml = _merge_lowercases(emit) if emit is not None else None
    pf = _pop_in_finally(blk) if blk is not None else None
    return [
        Fact("readonlyHeaders", "List String", None if ro is None else lean_list([lean_str(x) for x in ro]), ["C18", "C17"],
             "TransportMixIn.readonly_headers", json_value=ro),
        Fact("headerMergeLowercasesKeys", "Bool", None if ml is None else lean_bool(ml), ["C18"],
             "emit_additional_headers: keys are lower-cased while merging the pushed dictionaries", json_value=ml),
        Fact("headersBlockPopInFinally", "Bool", None if pf is None else lean_bool(pf), ["C18"],
             "ServerProxy._additional_headers: pop_headers is called in a finally around the yield", json_value=pf),
    ]
