"""
Facts about the client's custom-header handling in jsonrpclib/jsonrpc.py (C18).

The facts describe what the code *does*, not how it is spelled: a small order-aware data-flow pass follows local
aliases (`name = str(key).lower(); merged[name] = ...`, `transport = self.__transport; transport.pop_headers(h)`),
so that renaming locals, introducing an alias, reordering independent statements or iterating `for key in headers`
instead of `.items()` does not change a fact.
"""
import ast

from __main__ import Fact, lean_bool, lean_list, lean_str

import importlib.util
import os
import sys


def _load_norm():
    """tools/extractors/normalise_rpc.py, loaded once per process under a name of its own (sys.path is left alone)."""
    name = "jrv_normalise_rpc"
    if name not in sys.modules:
        spec = importlib.util.spec_from_file_location(
            name, os.path.join(os.path.dirname(os.path.abspath(__file__)), "normalise_rpc.py"))
        mod = importlib.util.module_from_spec(spec)
        sys.modules[name] = mod
        spec.loader.exec_module(mod)
    return sys.modules[name]


norm = _load_norm()


PROPERTIES = ["C18"]

STACK_ATTR = "additional_headers"


def _readonly(src):
    cls = src.klass("jsonrpc", "TransportMixIn")
    if cls is None:
        return None
    v = src.assign_value("jsonrpc", "readonly_headers", scope=cls)
    if isinstance(v, (ast.Tuple, ast.List, ast.Set)) and all(isinstance(e, ast.Constant) and isinstance(e.value, str) for e in v.elts):
        return [e.value for e in v.elts]
    if isinstance(v, ast.Call) and isinstance(v.func, ast.Name) and v.func.id in ("tuple", "list", "frozenset", "set") \
            and len(v.args) == 1 and isinstance(v.args[0], (ast.Tuple, ast.List)) \
            and all(isinstance(e, ast.Constant) and isinstance(e.value, str) for e in v.args[0].elts):
        return [e.value for e in v.args[0].elts]
    return None


# ---- lower-cased keys while merging ---------------------------------------------------------

def _lowered(node, env):
    """Is the value of this expression certainly a lower-cased string?  `<expr>.lower()`, or a local name whose
    latest assignment on every path to here was such a value."""
    if isinstance(node, ast.Call) and isinstance(node.func, ast.Attribute) and node.func.attr == "lower" and not node.args:
        return True
    if isinstance(node, ast.Name):
        return env.get(node.id, False)
    if isinstance(node, ast.NamedExpr):
        return _lowered(node.value, env)
    return False


def _bind(target, is_low, env, stores):
    """Assignment to `target`: a name is (re)bound, a subscript is a store into a dictionary."""
    if isinstance(target, ast.Name):
        env[target.id] = is_low
    elif isinstance(target, ast.Subscript):
        stores.append(_lowered(target.slice, env))
    elif isinstance(target, (ast.Tuple, ast.List)):
        for e in target.elts:
            _bind(e, False, env, stores)
    elif isinstance(target, ast.Starred):
        _bind(target.value, False, env, stores)


def _comp_key_lowered(arg, env):
    """`{k.lower(): v for ...}` / `((k.lower(), v) for ...)` / `[(k.lower(), v) for ...]` given to update()/dict()."""
    if isinstance(arg, ast.DictComp):
        inner = dict(env)
        for g in arg.generators:
            _bind(g.target, False, inner, [])
        return _lowered(arg.key, inner)
    if isinstance(arg, (ast.GeneratorExp, ast.ListComp)) and isinstance(arg.elt, ast.Tuple) and len(arg.elt.elts) == 2:
        inner = dict(env)
        for g in arg.generators:
            _bind(g.target, False, inner, [])
        return _lowered(arg.elt.elts[0], inner)
    return False


def _calls_storing(node, env, stores):
    """Method calls that write entries into a dictionary."""
    for m in ast.walk(node):
        if isinstance(m, ast.Call) and isinstance(m.func, ast.Attribute):
            if m.func.attr == "update":
                stores.append(len(m.args) == 1 and not m.keywords and _comp_key_lowered(m.args[0], env))
            elif m.func.attr in ("setdefault", "__setitem__") and m.args:
                stores.append(_lowered(m.args[0], env))
        elif isinstance(m, ast.NamedExpr) and isinstance(m.target, ast.Name):
            env[m.target.id] = _lowered(m.value, env)


def _merge_envs(env, branches):
    """After alternative branches a name is lower-cased only when it is on every branch."""
    names = set()
    for b in branches:
        names.update(b)
    for n in names:
        env[n] = all(b.get(n, False) for b in branches)


def _scan(stmts, env, stores):
    """Walks statements in order; `env` maps a local name to "holds a lower-cased string now"; `stores` collects,
    for every store into a dictionary, whether its key is lower-cased."""
    for s in stmts:
        if isinstance(s, ast.Assign):
            _calls_storing(s.value, env, stores)
            low = _lowered(s.value, env)
            for t in s.targets:
                _bind(t, low, env, stores)
        elif isinstance(s, ast.AnnAssign):
            if s.value is not None:
                _calls_storing(s.value, env, stores)
                _bind(s.target, _lowered(s.value, env), env, stores)
        elif isinstance(s, ast.AugAssign):
            _calls_storing(s.value, env, stores)
            _bind(s.target, False, env, stores)
        elif isinstance(s, (ast.For, ast.AsyncFor)):
            _calls_storing(s.iter, env, stores)
            _bind(s.target, False, env, stores)
            before = dict(env)
            _scan(s.body, env, stores)
            # second pass: a name re-bound late in the body reaches the stores of the next iteration
            again = []
            _bind(s.target, False, env, again)
            _scan(s.body, env, again)
            stores.extend(again)
            _merge_envs(env, [before, dict(env)])
            _scan(s.orelse, env, stores)
        elif isinstance(s, ast.While):
            _calls_storing(s.test, env, stores)
            before = dict(env)
            _scan(s.body, env, stores)
            again = []
            _scan(s.body, env, again)
            stores.extend(again)
            _merge_envs(env, [before, dict(env)])
            _scan(s.orelse, env, stores)
        elif isinstance(s, ast.If):
            _calls_storing(s.test, env, stores)
            a, b = dict(env), dict(env)
            _scan(s.body, a, stores)
            _scan(s.orelse, b, stores)
            _merge_envs(env, [a, b])
        elif isinstance(s, (ast.With, ast.AsyncWith)):
            for it in s.items:
                _calls_storing(it.context_expr, env, stores)
                if it.optional_vars is not None:
                    _bind(it.optional_vars, False, env, stores)
            _scan(s.body, env, stores)
        elif isinstance(s, ast.Try):
            before = dict(env)
            _scan(s.body, env, stores)
            branches = [dict(env)]
            for h in s.handlers:
                e = dict(before)
                _merge_envs(e, [before, branches[0]])
                if h.name:
                    e[h.name] = False
                _scan(h.body, e, stores)
                branches.append(e)
            e = dict(branches[0])
            _scan(s.orelse, e, stores)
            branches[0] = e
            _merge_envs(env, branches)
            _scan(s.finalbody, env, stores)
        elif isinstance(s, (ast.FunctionDef, ast.AsyncFunctionDef, ast.ClassDef)):
            env[s.name] = False
        elif isinstance(s, ast.Delete):
            for t in s.targets:
                if isinstance(t, ast.Name):
                    env[t.id] = False
        else:
            _calls_storing(s, env, stores)


def _mentions_stack(node, aliases):
    for m in ast.walk(node):
        if isinstance(m, ast.Attribute) and m.attr == STACK_ATTR:
            return True
        if isinstance(m, ast.Name) and m.id in aliases:
            return True
    return False


def _stack_loops(fn):
    """The `for` loops of `fn` that iterate over the stack of pushed dictionaries (possibly through a local alias,
    `list(...)`, `reversed(...)`, `enumerate(...)`, `range(len(...))`)."""
    aliases = set()
    for n in ast.walk(fn):
        if isinstance(n, ast.Assign) and _mentions_stack(n.value, ()) and not isinstance(n.value, ast.Dict):
            for t in n.targets:
                if isinstance(t, ast.Name):
                    aliases.add(t.id)
    loops = []
    for n in ast.walk(fn):
        if isinstance(n, (ast.For, ast.AsyncFor)) and _mentions_stack(n.iter, aliases):
            loops.append(n)
    # keep outermost loops only
    inner = set()
    for lp in loops:
        for m in ast.walk(lp):
            if m is not lp and m in loops:
                inner.add(m)
    return [lp for lp in loops if lp not in inner]


def _merge_lowercases_in(fn):
    loops = _stack_loops(fn)
    if not loops:
        return None
    stores = []
    for lp in loops:
        # names bound before the loop are not tracked: inside the loop they count as "not lower-cased"
        _scan([lp], {}, stores)
    if not stores:
        return None
    return all(stores)


def _merge_lowercases(src, fn):
    """
    True when every store into a dictionary made while iterating over the pushed dictionaries uses a lower-cased
    key — `d[<x>.lower()] = …`, or `d[name] = …` where the local `name` holds a `.lower()` result at that point, or
    `d.update({<x>.lower(): … for …})` — so that the merge itself is case-insensitive.  False when a plain key, a
    name re-bound to something else, or `update(<dictionary>)` is used there.  None when no such loop is found (the
    loop is also looked for in the TransportMixIn methods that `emit_additional_headers` calls on `self`).
    """
    r = _merge_lowercases_in(fn)
    if r is not None:
        return r
    results = []
    for m in ast.walk(fn):
        if isinstance(m, ast.Call) and isinstance(m.func, ast.Attribute) and isinstance(m.func.value, ast.Name) \
                and m.func.value.id == "self":
            callee = src.func("jsonrpc", "TransportMixIn." + m.func.attr)
            if callee is not None and callee is not fn:
                r = _merge_lowercases_in(callee)
                if r is not None:
                    results.append(r)
    if results:
        return all(results)
    return None


# ---- pop in a finally around the yield ---------------------------------------------------------

def _is_pop_call(node, aliases):
    """`<anything>.pop_headers(...)`, a local alias of that bound method, or a direct `….additional_headers.pop()`."""
    if not isinstance(node, ast.Call):
        return False
    f = node.func
    if isinstance(f, ast.Attribute) and f.attr == "pop_headers":
        return True
    if isinstance(f, ast.Name) and f.id in aliases:
        return True
    if isinstance(f, ast.Attribute) and f.attr == "pop" and isinstance(f.value, ast.Attribute) and f.value.attr == STACK_ATTR:
        return True
    return False


def _pops_unconditionally(stmts, aliases):
    """Does this statement list call pop_headers on every path (not under an `if`, a loop or an `except`)?"""
    for s in stmts:
        if isinstance(s, (ast.Expr, ast.Assign, ast.AnnAssign, ast.Return)):
            v = s.value
            if v is not None and any(_is_pop_call(m, aliases) for m in ast.walk(v)):
                return True
        elif isinstance(s, (ast.With, ast.AsyncWith)):
            if _pops_unconditionally(s.body, aliases):
                return True
        elif isinstance(s, ast.Try):
            if _pops_unconditionally(s.finalbody, aliases) or _pops_unconditionally(s.body[:1], aliases):
                return True
        elif isinstance(s, ast.If):
            if _pops_unconditionally(s.body, aliases) and _pops_unconditionally(s.orelse, aliases):
                return True
    return False


def _pop_in_finally(fn):
    """
    True when the `yield` of _additional_headers sits in the body of a `try` whose `finally` calls pop_headers on
    every path (directly, through a local alias of the transport or of the bound method) — the dictionary is then
    popped however the block is left, for every class of exception.  False when the yield is not protected that way
    (no try, `except Exception: pop; raise / else: pop`, a conditional pop).  None when there is no yield at all.
    """
    aliases = set()
    for n in ast.walk(fn):
        if isinstance(n, ast.Assign) and isinstance(n.value, ast.Attribute) and n.value.attr == "pop_headers":
            for t in n.targets:
                if isinstance(t, ast.Name):
                    aliases.add(t.id)
    yields = [m for m in ast.walk(fn) if isinstance(m, (ast.Yield, ast.YieldFrom))]
    if not yields:
        return None
    protected = set()
    for n in ast.walk(fn):
        if isinstance(n, ast.Try) and n.finalbody and _pops_unconditionally(n.finalbody, aliases):
            for s in n.body:
                for m in ast.walk(s):
                    if isinstance(m, (ast.Yield, ast.YieldFrom)):
                        protected.add(m)
    return all(y in protected for y in yields)


def facts(src):
    src = norm.nsource(src)
    ro = _readonly(src)
    emit = src.func("jsonrpc", "TransportMixIn.emit_additional_headers")
    blk = src.func("jsonrpc", "ServerProxy._additional_headers")
    ml = _merge_lowercases(src, emit) if emit is not None else None
    pf = _pop_in_finally(blk) if blk is not None else None
    return [
        Fact("readonlyHeaders", "List String", None if ro is None else lean_list([lean_str(x) for x in ro]), ["C18", "C17"],
             "TransportMixIn.readonly_headers", json_value=ro),
        Fact("headerMergeLowercasesKeys", "Bool", None if ml is None else lean_bool(ml), ["C18"],
             "emit_additional_headers: every store into the merged dictionary made while iterating the pushed "
             "dictionaries uses a lower-cased key (possibly through a local alias)", json_value=ml),
        Fact("headersBlockPopInFinally", "Bool", None if pf is None else lean_bool(pf), ["C18"],
             "ServerProxy._additional_headers: pop_headers is called unconditionally in a finally around the yield",
             json_value=pf),
    ]
