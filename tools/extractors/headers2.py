"""
Facts about the way the configured user agent reaches the `User-Agent` header line (C18: "User-Agent is the
configured one unless overridden"): jsonrpclib/config.py `Config.__init__` / `Config.copy` and, in
jsonrpclib/jsonrpc.py, `TransportMixIn.__init__` / `send_content`, the three transports' constructors and the
transports `ServerProxy.__init__` builds.

The facts say what the code does with the VALUE, not how it is spelled: a small symbolic evaluation follows local
names through assignments, `if` statements, conditional expressions and `a or b`, so that renaming a local, turning
the `if` into a conditional expression (or the other way round), testing `is not None` with swapped branches or
computing the default string earlier does not change a fact -- while a different test (`not user_agent`,
`user_agent == ""` ...), a conversion (`str(...)`, `.strip()`) or another source for the value does.
"""
import ast

from __main__ import Fact, lean_bool, lean_list, lean_str

PROPERTIES = ["C18"]

ATTR = "user_agent"
TRANSPORTS = ["SafeTransport", "Transport", "UnixTransport"]

# ---- symbolic values -------------------------------------------------------------------------
# ("src",)                      the tracked source value itself (the parameter / `self.user_agent` / ...)
# ("free", text)                an expression that does not depend on the source value
# ("dep", text)                 an expression that depends on it in a way the evaluation does not describe
# ("cond", kind, a, b)          `a` when the test holds else `b`; kind: "is-none" | "falsy" | "other:<text>"
SRC = ("src",)


def _text(node):
    try:
        return ast.unparse(node)
    except Exception:  # pragma: no cover
        return ast.dump(node)


class Eval(object):
    """Evaluates the statements of one function symbolically with respect to ONE source expression."""

    def __init__(self, is_source, out_attr=None):
        self.is_source = is_source      # node -> bool: this expression IS the source value
        self.out_attr = out_attr        # name of the `self.<attr>` store to follow (pseudo variable "@out")

    def expr(self, node, env):
        if isinstance(node, ast.Name) and node.id in env:
            return env[node.id]          # (re)bound: the latest binding decides, also for the source's own name
        if self.is_source(node):
            return SRC
        if isinstance(node, ast.Name):
            return ("free", node.id)
        if isinstance(node, ast.NamedExpr):
            v = self.expr(node.value, env)
            env[node.target.id] = v
            return v
        if isinstance(node, ast.IfExp):
            kind, pos = self.test(node.test, env)
            a, b = self.expr(node.body, env), self.expr(node.orelse, env)
            return self.cond(kind, a, b) if pos else self.cond(kind, b, a)
        if isinstance(node, ast.BoolOp) and isinstance(node.op, ast.Or) and len(node.values) == 2:
            a, b = self.expr(node.values[0], env), self.expr(node.values[1], env)
            if a == SRC:
                return self.cond("falsy", b, a)       # `src or b`: b when src is falsy
            if a[0] == "free" and b[0] == "free":
                return ("free", _text(node))
            return ("dep", _text(node))
        # anything else: does it mention the source or a name bound to something that depends on it?
        for sub in ast.walk(node):
            if self.is_source(sub):
                return ("dep", _text(node))
            if isinstance(sub, ast.Name) and sub.id in env and env[sub.id][0] != "free":
                return ("dep", _text(node))
        return ("free", _text(node))

    def lookup(self, name, env):
        """Value of a local in a branch that did not bind it: what the name meant before (a parameter, a global)."""
        if name in env:
            return env[name]
        if name.startswith("@"):
            return ("free", "<not stored>")
        return self.expr(ast.Name(id=name, ctx=ast.Load()), {})

    @staticmethod
    def cond(kind, a, b):
        return a if a == b else ("cond", kind, a, b)

    def test(self, node, env):
        """(kind, positive): the test holds iff the source value <kind> (positive) / does not (negative)."""
        if isinstance(node, ast.UnaryOp) and isinstance(node.op, ast.Not):
            kind, pos = self.test(node.operand, env)
            return kind, not pos
        if isinstance(node, ast.Compare) and len(node.ops) == 1:
            l, r = node.left, node.comparators[0]
            for x, y in ((l, r), (r, l)):
                if self.expr(x, dict(env)) == SRC and isinstance(y, ast.Constant) and y.value is None:
                    if isinstance(node.ops[0], ast.Is):
                        return "is-none", True
                    if isinstance(node.ops[0], ast.IsNot):
                        return "is-none", False
        if self.expr(node, dict(env)) == SRC:
            return "falsy", False
        return "other:" + _text(node), True

    def block(self, stmts, env):
        for st in stmts:
            if isinstance(st, (ast.Assign, ast.AnnAssign)):
                if st.value is None:
                    continue
                v = self.expr(st.value, env)
                targets = st.targets if isinstance(st, ast.Assign) else [st.target]
                for t in targets:
                    self.bind(t, v, env)
            elif isinstance(st, ast.AugAssign):
                self.bind(st.target, ("dep", _text(st)), env)
            elif isinstance(st, ast.If):
                kind, pos = self.test(st.test, env)
                e1, e2 = dict(env), dict(env)
                self.block(st.body, e1)
                self.block(st.orelse, e2)
                if not pos:
                    e1, e2 = e2, e1
                for k in set(e1) | set(e2):
                    env[k] = self.cond(kind, self.lookup(k, e1), self.lookup(k, e2))
            elif isinstance(st, (ast.Try, ast.With, ast.For, ast.While)):
                # not expected around these stores: whatever is bound inside is not described
                before = dict(env)
                for body in [getattr(st, "body", []), getattr(st, "orelse", []), getattr(st, "finalbody", [])] + \
                        [h.body for h in getattr(st, "handlers", [])]:
                    self.block(body, env)
                for k in env:
                    if env[k] != before.get(k):
                        env[k] = ("dep", "<bound inside %s>" % type(st).__name__)
            elif isinstance(st, ast.Expr) and isinstance(st.value, ast.NamedExpr):
                self.expr(st.value, env)
            elif isinstance(st, ast.Expr) and isinstance(st.value, ast.Call):
                # setattr(self, "user_agent", v)
                c = st.value
                if isinstance(c.func, ast.Name) and c.func.id == "setattr" and len(c.args) == 3 and \
                        isinstance(c.args[0], ast.Name) and c.args[0].id == "self" and \
                        isinstance(c.args[1], ast.Constant) and c.args[1].value == self.out_attr:
                    env["@out"] = self.expr(c.args[2], env)

    def bind(self, target, v, env):
        if isinstance(target, ast.Name):
            env[target.id] = v
        elif isinstance(target, ast.Attribute) and isinstance(target.value, ast.Name) and target.value.id == "self" \
                and target.attr == self.out_attr:
            env["@out"] = v
        elif isinstance(target, (ast.Tuple, ast.List)):
            for e in target.elts:
                self.bind(e, ("dep", "<unpacked>"), env)


def _classify(v):
    """What becomes of the source value: "verbatim" | "is-none" (replaced by something else exactly when it is None)
    | "falsy" (replaced whenever it is falsy) | "other: ..."."""
    if v == SRC:
        return "verbatim"
    if v[0] == "cond" and v[3] == SRC and v[2][0] == "free" and v[1] in ("is-none", "falsy"):
        return v[1]
    return "other: %s" % (v,)


def _param_source(name):
    return lambda n: isinstance(n, ast.Name) and n.id == name


def _self_attr_source(attr):
    return lambda n: isinstance(n, ast.Attribute) and n.attr == attr and isinstance(n.value, ast.Name) and n.value.id == "self"


def _params(fn):
    return [a.arg for a in fn.args.posonlyargs + fn.args.args]


def _bound_arg(call, params, name, skip_self=True):
    """The argument expression a call binds to parameter `name` of a function whose parameters are `params`."""
    ps = params[1:] if skip_self else params
    for kw in call.keywords:
        if kw.arg == name:
            return kw.value
        if kw.arg is None:
            return None     # **kwargs: not described
    if any(isinstance(a, ast.Starred) for a in call.args):
        return None
    if name in ps and ps.index(name) < len(call.args):
        return call.args[ps.index(name)]
    return None


# ---- 1. Config.__init__: the defaulting --------------------------------------------------------

def _config_defaulting(src):
    fn = src.func("config", "Config.__init__")
    if fn is None or ATTR not in _params(fn):
        return None
    ev = Eval(_param_source(ATTR), ATTR)
    env = {}
    ev.block(fn.body, env)
    if "@out" not in env:
        return None
    # the parameter's own default must be None for "omitted" to mean "default"
    ps = _params(fn)
    defaults = fn.args.defaults
    idx = ps.index(ATTR) - (len(ps) - len(defaults))
    if idx < 0 or not (isinstance(defaults[idx], ast.Constant) and defaults[idx].value is None):
        return "other: parameter default is not None"
    return _classify(env["@out"])


# ---- 2. Config.copy: the attribute goes back through the constructor's parameter of that name ------

def _config_copy(src):
    fn = src.func("config", "Config.copy")
    init = src.func("config", "Config.__init__")
    if fn is None or init is None:
        return None
    ev = Eval(_self_attr_source(ATTR))
    env = {}
    new_names, result = set(), None
    for st in fn.body:
        if isinstance(st, ast.Assign) and isinstance(st.value, ast.Call) and isinstance(st.value.func, ast.Name) and \
                st.value.func.id == "Config" and len(st.targets) == 1 and isinstance(st.targets[0], ast.Name):
            arg = _bound_arg(st.value, _params(init), ATTR)
            result = "other: not passed" if arg is None else _classify(ev.expr(arg, env))
            new_names.add(st.targets[0].id)
        elif isinstance(st, ast.Assign):
            for t in st.targets:
                if isinstance(t, ast.Attribute) and t.attr == ATTR and isinstance(t.value, ast.Name) and t.value.id in new_names:
                    result = _classify(ev.expr(st.value, env))   # a later store decides
                elif isinstance(t, ast.Name):
                    env[t.id] = ev.expr(st.value, env)
        elif isinstance(st, ast.Return) and isinstance(st.value, ast.Call) and isinstance(st.value.func, ast.Name) and \
                st.value.func.id == "Config":
            arg = _bound_arg(st.value, _params(init), ATTR)
            result = "other: not passed" if arg is None else _classify(ev.expr(arg, env))
    return result


# ---- 3. TransportMixIn.__init__: self.user_agent = config.user_agent ---------------------------

def _transport_agent(src):
    fn = src.func("jsonrpc", "TransportMixIn.__init__")
    if fn is None or "config" not in _params(fn):
        return None

    def is_source(n):
        return isinstance(n, ast.Attribute) and n.attr == ATTR and isinstance(n.value, ast.Name) and n.value.id in cfg_names

    cfg_names = {"config"}
    # `self._config = config` / `cfg = config` aliases of the parameter (never rebound to something else)
    for st in fn.body:
        if isinstance(st, ast.Assign) and isinstance(st.value, ast.Name) and st.value.id in cfg_names:
            for t in st.targets:
                if isinstance(t, ast.Name):
                    cfg_names.add(t.id)
    ev = Eval(lambda n: is_source(n) or (
        isinstance(n, ast.Attribute) and n.attr == ATTR and isinstance(n.value, ast.Attribute) and n.value.attr == "_config"
        and isinstance(n.value.value, ast.Name) and n.value.value.id == "self"), ATTR)
    env = {}
    ev.block(fn.body, env)
    if "@out" not in env:
        return None
    return _classify(env["@out"])


# ---- 4. send_content: the User-Agent line carries self.user_agent ------------------------------

def _sends_agent(src):
    fn = src.func("jsonrpc", "TransportMixIn.send_content")
    if fn is None:
        return None
    ev = Eval(_self_attr_source(ATTR))
    found = []

    def walk(stmts, env):
        for st in stmts:
            if isinstance(st, ast.Expr) and isinstance(st.value, ast.Call):
                c = st.value
                if isinstance(c.func, ast.Attribute) and c.func.attr == "putheader" and len(c.args) >= 2 and \
                        isinstance(c.args[0], ast.Constant) and isinstance(c.args[0].value, str) and \
                        c.args[0].value.lower() == "user-agent":
                    found.append(_classify(ev.expr(c.args[1], env)) if len(c.args) == 2 else "other: several values")
            elif isinstance(st, ast.Assign):
                ev.block([st], env)
            elif isinstance(st, ast.If):
                walk(st.body, env)
                walk(st.orelse, env)
            elif isinstance(st, (ast.Try, ast.With, ast.For, ast.While)):
                for body in [getattr(st, "body", []), getattr(st, "orelse", []), getattr(st, "finalbody", [])] + \
                        [h.body for h in getattr(st, "handlers", [])]:
                    walk(body, env)

    walk(fn.body, {})
    if not found:
        return None
    return all(f == "verbatim" for f in found)


# ---- 5. the transports hand their `config` to TransportMixIn.__init__ --------------------------

def _is_config_expr(n, names):
    return isinstance(n, ast.Name) and n.id in names


def _transports_forward(src):
    mix = src.func("jsonrpc", "TransportMixIn.__init__")
    if mix is None:
        return None
    out = []
    for name in TRANSPORTS:
        fn = src.func("jsonrpc", name + ".__init__")
        if fn is None:
            # no constructor of its own: TransportMixIn.__init__ is inherited only if the mix-in comes first
            cls = src.klass("jsonrpc", name)
            ok = cls is not None and cls.bases and isinstance(cls.bases[0], ast.Name) and cls.bases[0].id == "TransportMixIn"
            out.append((name, bool(ok)))
            continue
        ok, calls = "config" in _params(fn), 0
        for c in ast.walk(fn):
            if isinstance(c, ast.Call) and isinstance(c.func, ast.Attribute) and c.func.attr == "__init__":
                f = c.func.value
                direct = isinstance(f, ast.Name) and f.id == "TransportMixIn"
                sup = isinstance(f, ast.Call) and isinstance(f.func, ast.Name) and f.func.id == "super"
                if not (direct or sup):
                    continue
                if sup and not direct:
                    # super().__init__(config, ...) resolves to the mix-in when it is the first base
                    cls = src.klass("jsonrpc", name)
                    if not (cls.bases and isinstance(cls.bases[0], ast.Name) and cls.bases[0].id == "TransportMixIn"):
                        continue
                    arg = _bound_arg(c, _params(mix), "config", skip_self=True)
                else:
                    arg = _bound_arg(c, _params(mix), "config", skip_self=False)
                    # TransportMixIn.__init__(self, config, ...): `self` is explicit
                calls += 1
                ok = ok and arg is not None and _is_config_expr(arg, {"config"})
        rebinds = any(isinstance(n, ast.Name) and n.id == "config" and isinstance(n.ctx, ast.Store) for n in ast.walk(fn))
        out.append((name, bool(ok and calls >= 1 and not rebinds)))
    return out


# ---- 6. ServerProxy.__init__ builds each transport with its own `config` ------------------------

def _proxy_transports(src):
    fn = src.func("jsonrpc", "ServerProxy.__init__")
    if fn is None or "config" not in _params(fn):
        return None
    rebinds = any(isinstance(n, ast.Name) and n.id == "config" and isinstance(n.ctx, ast.Store) for n in ast.walk(fn))
    seen = {}
    for c in ast.walk(fn):
        if isinstance(c, ast.Call) and isinstance(c.func, ast.Name) and c.func.id in TRANSPORTS:
            ctor = src.func("jsonrpc", c.func.id + ".__init__") or src.func("jsonrpc", "TransportMixIn.__init__")
            arg = _bound_arg(c, _params(ctor), "config") if ctor is not None else None
            ok = arg is not None and not rebinds and (
                _is_config_expr(arg, {"config"}) or
                (isinstance(arg, ast.Attribute) and arg.attr == "_config" and isinstance(arg.value, ast.Name) and arg.value.id == "self"))
            seen[c.func.id] = seen.get(c.func.id, True) and bool(ok)
    if not seen:
        return None
    return sorted(seen.items())


def _pairs(ps):
    return lean_list(["(%s, %s)" % (lean_str(k), lean_bool(v)) for k, v in ps])


def facts(src):
    cd, cc, ta = _config_defaulting(src), _config_copy(src), _transport_agent(src)
    sa, tf, pt = _sends_agent(src), _transports_forward(src), _proxy_transports(src)
    return [
        Fact("configAgentDefaulting", "String", None if cd is None else lean_str(cd), ["C18"],
             "Config.__init__ stores the user_agent argument verbatim and replaces it by the default exactly when it is None "
             "(\"is-none\"); \"falsy\": every falsy value is replaced; \"verbatim\": no default at all", cd),
        Fact("configCopyAgent", "String", None if cc is None else lean_str(cc), ["C18"],
             "Config.copy hands self.user_agent, as it is, to the constructor parameter user_agent (\"verbatim\")", cc),
        Fact("transportAgentFromConfig", "String", None if ta is None else lean_str(ta), ["C18"],
             "TransportMixIn.__init__ stores config.user_agent as it is into self.user_agent (\"verbatim\")", ta),
        Fact("sendContentSendsTransportAgent", "Bool", None if sa is None else lean_bool(sa), ["C18"],
             "every putheader('User-Agent', v) of send_content has v = self.user_agent, unconverted", sa),
        Fact("transportsForwardConfig", "List (String × Bool)", None if tf is None else _pairs(tf), ["C18"],
             "Transport / SafeTransport / UnixTransport give their own `config` argument to TransportMixIn.__init__",
             None if tf is None else [list(x) for x in tf]),
        Fact("proxyTransportsGetConfig", "List (String × Bool)", None if pt is None else _pairs(pt), ["C18"],
             "every transport ServerProxy.__init__ builds is built with the proxy's own `config` argument",
             None if pt is None else [list(x) for x in pt]),
    ]
