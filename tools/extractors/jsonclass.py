"""
Facts about jsonrpclib/jsonclass.py and the type tables of jsonrpclib/utils.py (C07, C08, C15, C20).
"""
import ast

from __main__ import Fact, lean_str, lean_bool, lean_list

PROPERTIES = ["C07", "C08", "C15", "C20"]


def _parents(fn):
    par = {}
    for n in ast.walk(fn):
        for c in ast.iter_child_nodes(n):
            par[c] = n
    return par


def _calls_to(fn, name):
    return [n for n in ast.walk(fn) if isinstance(n, ast.Call) and isinstance(n.func, ast.Name) and n.func.id == name]


def _site(call, par):
    """Where a recursive call sits: list comprehension, dict comprehension, argument of setattr / attrs[...] = …"""
    n = call
    while n in par:
        p = par[n]
        if isinstance(p, ast.ListComp):
            return "list"
        if isinstance(p, ast.DictComp):
            return "dict"
        if isinstance(p, ast.Call) and isinstance(p.func, ast.Name) and p.func.id == "setattr":
            return "setattr"
        if isinstance(p, ast.Assign) and any(isinstance(t, ast.Subscript) for t in p.targets):
            return "field"
        if isinstance(p, ast.FunctionDef):
            break
        n = p
    return "other"


def _load_calls(fn):
    """[(site, forwards `classes`)] for the recursive load(...) calls, in source order."""
    par = _parents(fn)
    out = []
    for c in sorted(_calls_to(fn, "load"), key=lambda c: (c.lineno, c.col_offset)):
        fw = (len(c.args) >= 2 and isinstance(c.args[1], ast.Name) and c.args[1].id == "classes") or any(
            k.arg == "classes" and isinstance(k.value, ast.Name) and k.value.id == "classes" for k in c.keywords)
        out.append((_site(c, par), bool(fw)))
    return out


def _dump_calls(fn):
    """[(site, forwards serialize_method, ignore_attribute, ignore, config unchanged)] for recursive dump(...) calls."""
    par = _parents(fn)
    want = ["serialize_method", "ignore_attribute", "ignore", "config"]
    out = []
    for c in sorted(_calls_to(fn, "dump"), key=lambda c: (c.lineno, c.col_offset)):
        names = [a.id if isinstance(a, ast.Name) else None for a in c.args[1:]]
        kw = dict((k.arg, k.value.id if isinstance(k.value, ast.Name) else None) for k in c.keywords)
        got = names + [kw.get(w) for w in want[len(names):]]
        out.append((_site(c, par), got == want))
    return out


def _char_class(src):
    """INVALID_MODULE_CHARS = r"[^…]" -> (negated, sorted [(lo, hi)]) or None when it is not a single class."""
    node = src.assign_value("jsonclass", "INVALID_MODULE_CHARS")
    if not (isinstance(node, ast.Constant) and isinstance(node.value, str)):
        return None
    s = node.value
    if len(s) < 2 or s[0] != "[" or s[-1] != "]":
        return None
    body = s[1:-1]
    neg = body.startswith("^")
    if neg:
        body = body[1:]
    items = []
    i = 0
    while i < len(body):
        ch = body[i]
        if ch == "\\":
            if i + 1 >= len(body):
                return None
            nxt = body[i + 1]
            if nxt.isalnum():
                return None  # a class escape such as \w or \d: not a plain set of ranges
            ch = nxt
            i += 1
        elif ch in "[]":
            return None
        i += 1
        if i + 1 < len(body) and body[i] == "-":
            hi = body[i + 1]
            if hi == "\\":
                return None
            items.append((ord(ch), ord(hi)))
            i += 2
        else:
            items.append((ord(ch), ord(ch)))
    return neg, sorted(set(items))


def _compiled_patterns(src):
    """Module-level names of jsonclass.py bound to re.compile(INVALID_MODULE_CHARS)."""
    out = set()
    tree = src.module("jsonclass") if src is not None else None
    if tree is None:
        return out
    for st in tree.body:
        if isinstance(st, ast.Assign) and len(st.targets) == 1 and isinstance(st.targets[0], ast.Name) \
                and isinstance(st.value, ast.Call) and isinstance(st.value.func, ast.Attribute) \
                and st.value.func.attr == "compile" and len(st.value.args) >= 1 \
                and isinstance(st.value.args[0], ast.Name) and st.value.args[0].id == "INVALID_MODULE_CHARS":
            out.add(st.targets[0].id)
    return out


def _sub_call(value, compiled):
    """`re.sub(INVALID_MODULE_CHARS, "", name)` or `<compiled INVALID_MODULE_CHARS>.sub("", name)` -> name | None"""
    if not (isinstance(value, ast.Call) and isinstance(value.func, ast.Attribute) and value.func.attr == "sub"):
        return None
    a = value.args
    if len(a) == 3 and isinstance(a[0], ast.Name) and a[0].id == "INVALID_MODULE_CHARS" and isinstance(a[1], ast.Constant) \
            and a[1].value == "" and isinstance(a[2], ast.Name) and not value.keywords:
        return a[2].id
    if len(a) == 2 and isinstance(value.func.value, ast.Name) and value.func.value.id in compiled \
            and isinstance(a[0], ast.Constant) and a[0].value == "" and isinstance(a[1], ast.Name) and not value.keywords:
        return a[1].id
    return None


def _validation_precedes_import(fn, src=None):
    """`clean = re.sub(INVALID_MODULE_CHARS, "", name)` (or the same through a module-level
    `re.compile(INVALID_MODULE_CHARS)`); `if not name: raise TranslationError` and
    `if clean != name: raise TranslationError` both come, at the top level of `load`, before the first statement
    that contains a call of __import__ or a subscript of `classes` (local names are not significant)."""
    imp_idx = None
    sub = None  # (clean, name)
    compiled = _compiled_patterns(src)
    for st in fn.body:
        if isinstance(st, ast.Assign) and len(st.targets) == 1 and isinstance(st.targets[0], ast.Name):
            name = _sub_call(st.value, compiled)
            if name is not None:
                sub = (st.targets[0].id, name)
    if sub is None:
        return False
    kinds = {}
    for idx, st in enumerate(fn.body):
        resolves = any((isinstance(n, ast.Call) and isinstance(n.func, ast.Name) and n.func.id == "__import__")
                       or (isinstance(n, ast.Subscript) and isinstance(n.value, ast.Name) and n.value.id == "classes")
                       for n in ast.walk(st))
        if imp_idx is None and resolves:
            imp_idx = idx
        if isinstance(st, ast.If) and st.body and isinstance(st.body[0], ast.Raise):
            exc = st.body[0].exc
            if isinstance(exc, ast.Call) and isinstance(exc.func, ast.Name) and exc.func.id == "TranslationError":
                t = st.test
                if isinstance(t, ast.Compare) and len(t.ops) == 1 and isinstance(t.ops[0], ast.NotEq):
                    names = sorted(x.id for x in [t.left] + t.comparators if isinstance(x, ast.Name))
                    if names == sorted(sub):
                        kinds.setdefault("chars", idx)
                if isinstance(t, ast.UnaryOp) and isinstance(t.op, ast.Not) and isinstance(t.operand, ast.Name) \
                        and t.operand.id == sub[1]:
                    kinds.setdefault("empty", idx)
    if imp_idx is None:
        return None
    return "chars" in kinds and "empty" in kinds and kinds["chars"] < imp_idx and kinds["empty"] < imp_idx


def _jc_subscript(t):
    return isinstance(t, ast.Subscript) and isinstance(t.value, ast.Name) and t.value.id == "obj" \
        and isinstance(t.slice, ast.Constant) and t.slice.value == "__jsonclass__"


def _restores_in_finally(fn):
    """The loop calling setattr is the body of a `try` whose `finally` assigns obj["__jsonclass__"] the very object
    that was removed: a local bound (once) to `obj.pop("__jsonclass__")`, `obj["__jsonclass__"]` or
    `obj.get("__jsonclass__")`."""
    saved = {}
    for n in ast.walk(fn):
        if isinstance(n, ast.Assign):
            for t in n.targets:
                if isinstance(t, ast.Name):
                    v = n.value
                    ok = _jc_subscript(v) or (
                        isinstance(v, ast.Call) and isinstance(v.func, ast.Attribute) and v.func.attr in ("pop", "get")
                        and isinstance(v.func.value, ast.Name) and v.func.value.id == "obj" and len(v.args) == 1
                        and isinstance(v.args[0], ast.Constant) and v.args[0].value == "__jsonclass__")
                    saved[t.id] = saved.get(t.id, True) and ok
    saved = set(k for k, ok in saved.items() if ok)
    for n in ast.walk(fn):
        if isinstance(n, ast.Try) and n.finalbody:
            has_loop = any(isinstance(m, ast.Call) and isinstance(m.func, ast.Name) and m.func.id == "setattr"
                           for st in n.body for m in ast.walk(st))
            restores = any(
                isinstance(st, ast.Assign) and any(_jc_subscript(t) for t in st.targets)
                and isinstance(st.value, ast.Name) and st.value.id in saved
                for st in n.finalbody)
            if has_loop:
                return bool(restores)
    # no try at all around the loop
    return False


def _tuple_names(node, env):
    """Evaluates a tuple expression of type names symbolically."""
    if isinstance(node, ast.Tuple):
        out = []
        for e in node.elts:
            r = _tuple_names(e, env)
            if r is None:
                return None
            out.extend(r)
        return out
    if isinstance(node, ast.BinOp) and isinstance(node.op, ast.Add):
        a = _tuple_names(node.left, env)
        b = _tuple_names(node.right, env)
        return None if a is None or b is None else a + b
    if isinstance(node, ast.Name):
        if node.id in env:
            return env[node.id]
        return [node.id]
    if isinstance(node, ast.Attribute) and isinstance(node.value, ast.Name) and node.value.id == "utils":
        return env.get(node.attr)
    if isinstance(node, ast.Call) and isinstance(node.func, ast.Name) and node.func.id == "type" and len(node.args) == 1 \
            and isinstance(node.args[0], ast.Constant) and node.args[0].value is None:
        return ["NoneType"]
    return None


def _type_tables(src):
    tree = src.module("utils")
    if tree is None:
        return None
    env = {}

    def visit(body):
        for st in body:
            if isinstance(st, ast.If):
                # `if sys.version_info[0] < 3: … else: …`  -> Python 3 branch
                t = st.test
                if isinstance(t, ast.Compare) and isinstance(t.ops[0], ast.Lt) and "version_info" in ast.dump(t.left):
                    visit(st.orelse)
                continue
            if isinstance(st, ast.Assign) and len(st.targets) == 1 and isinstance(st.targets[0], ast.Name):
                name = st.targets[0].id
                if name.endswith("_TYPES") or name.endswith("Type"):
                    r = _tuple_names(st.value, env)
                    if r is not None:
                        env[name] = r

    visit(tree.body)
    sup = src.assign_value("jsonclass", "SUPPORTED_TYPES")
    supported = _tuple_names(sup, env) if sup is not None else None
    if "ITERABLE_TYPES" not in env or "PRIMITIVE_TYPES" not in env or supported is None:
        return None
    return env["ITERABLE_TYPES"], env["PRIMITIVE_TYPES"], supported


def _slots_finder(fn):
    """(reads only the class's own `vars(clazz)` slots, mangles private names with clazz.__name__.lstrip("_"),
    recurses into clazz.__bases__)"""
    own = False
    for n in ast.walk(fn):
        if isinstance(n, ast.For) and isinstance(n.iter, ast.Call) and isinstance(n.iter.func, ast.Attribute) \
                and n.iter.func.attr == "get":
            v = n.iter.func.value
            if isinstance(v, ast.Call) and isinstance(v.func, ast.Name) and v.func.id == "vars" and n.iter.args \
                    and isinstance(n.iter.args[0], ast.Constant) and n.iter.args[0].value == "__slots__":
                own = True
    uses_inherited = any(isinstance(n, ast.Attribute) and n.attr == "__slots__" for n in ast.walk(fn))
    text = ast.dump(fn)
    mangles = ("startswith" in text and "endswith" in text and "lstrip" in text and "__name__" in text
               and any(isinstance(n, ast.Constant) and n.value == "_{0}{1}" for n in ast.walk(fn)))
    recurses = any(isinstance(n, ast.For) and isinstance(n.iter, ast.Attribute) and n.iter.attr == "__bases__"
                   and _calls_to(n, "_slots_finder") for n in ast.walk(fn))
    return (own and not uses_inherited, bool(mangles), bool(recurses))


_MUTATORS = {"append", "extend", "insert", "remove", "pop", "clear", "sort", "reverse", "update", "add", "discard",
             "difference_update", "intersection_update", "symmetric_difference_update", "setdefault", "popitem"}


def _root(node):
    while isinstance(node, (ast.Subscript, ast.Attribute)):
        node = node.value
    return node.id if isinstance(node, ast.Name) else "?"


def _fresh_locals(fn):
    """Locals (not parameters) whose every assignment is a fresh container: a display, a comprehension or a
    call of dict/list/set/sorted (a new, shallow container whatever the argument) or of _find_fields."""
    params = set(a.arg for a in fn.args.args + fn.args.kwonlyargs)
    fresh = {}
    for n in ast.walk(fn):
        if isinstance(n, ast.Assign):
            for t in n.targets:
                if isinstance(t, ast.Name):
                    v = n.value
                    ok = isinstance(v, (ast.Dict, ast.List, ast.Set, ast.ListComp, ast.DictComp, ast.SetComp)) or (
                        isinstance(v, ast.Call) and isinstance(v.func, ast.Name)
                        and (v.func.id in ("dict", "list", "set", "sorted", "_find_fields")))
                    fresh[t.id] = fresh.get(t.id, True) and ok
    return set(k for k, v in fresh.items() if v and k not in params)


def _non_fresh_writes(fn):
    """Roots of the in-place writes of `dump` (subscript/attribute stores, augmented assignments, deletes,
    calls of mutating methods, setattr/delattr) that are not fresh locals: must be empty."""
    roots = set()
    for n in ast.walk(fn):
        if isinstance(n, (ast.Assign, ast.AnnAssign)):
            targets = n.targets if isinstance(n, ast.Assign) else [n.target]
            for t in targets:
                for e in (t.elts if isinstance(t, ast.Tuple) else [t]):
                    if isinstance(e, (ast.Subscript, ast.Attribute)):
                        roots.add(_root(e))
        elif isinstance(n, ast.AugAssign):
            roots.add(_root(n.target))
        elif isinstance(n, ast.Delete):
            for t in n.targets:
                roots.add(_root(t))
        elif isinstance(n, ast.Call):
            if isinstance(n.func, ast.Attribute) and n.func.attr in _MUTATORS:
                roots.add(_root(n.func.value))
            if isinstance(n.func, ast.Name) and n.func.id in ("setattr", "delattr") and n.args:
                roots.add(_root(n.args[0]))
    return sorted(roots - _fresh_locals(fn))


def _mentions(node, ident):
    return any(isinstance(n, ast.Name) and n.id == ident for n in ast.walk(node))


def _handler_first(fn):
    """The first statement after the docstring and the argument normalisation (plain assignments to names other than
    `obj` whose value does not mention `obj`) is the `try:` looking up config.serialize_handlers[type(obj)] (exact
    type); a non-None handler's result is returned as is.  Anything else ahead of it — an `if`, an `isinstance`
    test, a `type(obj) is …` shortcut, an early return — makes the fact false."""
    for st in fn.body:
        if isinstance(st, ast.Expr) and isinstance(st.value, ast.Constant):
            continue  # docstring
        if isinstance(st, (ast.Assign, ast.AnnAssign)):
            targets = st.targets if isinstance(st, ast.Assign) else [st.target]
            if all(isinstance(t, ast.Name) and t.id != "obj" for t in targets) and st.value is not None \
                    and not _mentions(st.value, "obj"):
                continue
            return False
        if not isinstance(st, ast.Try):
            return False
        ok = False
        for n in ast.walk(st):
            if isinstance(n, ast.Subscript) and isinstance(n.value, ast.Attribute) and n.value.attr == "serialize_handlers":
                sl = n.slice
                if isinstance(sl, ast.Call) and isinstance(sl.func, ast.Name) and sl.func.id == "type" and len(sl.args) == 1 \
                        and isinstance(sl.args[0], ast.Name) and sl.args[0].id == "obj":
                    ok = True
        # the local bound to the looked-up handler (its name is not significant)
        local = None
        for n in ast.walk(st):
            if isinstance(n, ast.Assign) and len(n.targets) == 1 and isinstance(n.targets[0], ast.Name) \
                    and isinstance(n.value, ast.Subscript) and isinstance(n.value.value, ast.Attribute) \
                    and n.value.value.attr == "serialize_handlers":
                local = n.targets[0].id
        returns_verbatim = local is not None and any(
            isinstance(n, ast.Return) and isinstance(n.value, ast.Call) and isinstance(n.value.func, ast.Name)
            and n.value.func.id == local for n in ast.walk(st))
        # the only condition on the way to that return is `<local> is not None`
        conds = [n.test for n in ast.walk(st) if isinstance(n, ast.If)]
        plain_guard = all(
            isinstance(t, ast.Compare) and isinstance(t.left, ast.Name) and t.left.id == local and len(t.ops) == 1
            and isinstance(t.ops[0], ast.IsNot) and isinstance(t.comparators[0], ast.Constant)
            and t.comparators[0].value is None for t in conds)
        if not ok:
            return None
        return bool(returns_verbatim and plain_guard)
    return None


def facts(src):
    load = src.func("jsonclass", "load")
    dump = src.func("jsonclass", "dump")
    sf = src.func("jsonclass", "_slots_finder")
    out = []

    lc = _load_calls(load) if load is not None else None
    out.append(Fact(
        "loadCalls", "List (String × Bool)",
        None if not lc else lean_list("(%s, %s)" % (lean_str(s), lean_bool(f)) for s, f in lc),
        ["C07"], "jsonclass.load: the recursive load(...) call sites in source order and whether each forwards `classes`",
        json_value=lc))

    dc = _dump_calls(dump) if dump is not None else None
    out.append(Fact(
        "dumpCalls", "List (String × Bool)",
        None if not dc else lean_list("(%s, %s)" % (lean_str(s), lean_bool(f)) for s, f in dc),
        ["C20"], "jsonclass.dump: the recursive dump(...) call sites and whether each forwards serialize_method, "
                 "ignore_attribute, ignore and config unchanged",
        json_value=dc))

    hf = _handler_first(dump) if dump is not None else None
    out.append(Fact(
        "handlerLookupFirst", "Bool", None if hf is None else lean_bool(hf), ["C20"],
        "jsonclass.dump: the lookup config.serialize_handlers[type(obj)] (exact type) is the first statement after the "
        "normalisation of the arguments and a non-None handler's result is returned as is", json_value=hf))

    cc = _char_class(src)
    out.append(Fact(
        "moduleCharClass", "Bool × List (Nat × Nat)",
        None if cc is None else "(%s, %s)" % (lean_bool(cc[0]), lean_list("(%d, %d)" % r for r in cc[1])),
        ["C08"], "INVALID_MODULE_CHARS as (negated?, code point ranges)", json_value=None if cc is None else [cc[0], cc[1]]))

    vp = _validation_precedes_import(load, src) if load is not None else None
    out.append(Fact(
        "validationPrecedesImport", "Bool", None if vp is None else lean_bool(vp), ["C08"],
        "jsonclass.load: the empty-name and invalid-character TranslationError tests (on re.sub(INVALID_MODULE_CHARS, \"\", name)) "
        "precede the statement that calls __import__", json_value=vp))

    rf = _restores_in_finally(load) if load is not None else None
    out.append(Fact(
        "loadRestoresInFinally", "Bool", None if rf is None else lean_bool(rf), ["C15"],
        "jsonclass.load: the setattr loop is the body of a try whose finally assigns obj[\"__jsonclass__\"] the object that was "
        "popped", json_value=rf))

    tt = _type_tables(src)
    out.append(Fact(
        "typeTables", "List String × List String × List String",
        None if tt is None else "(%s, %s, %s)" % tuple(lean_list(lean_str(x) for x in t) for t in tt),
        ["C15", "C07"], "utils.ITERABLE_TYPES, utils.PRIMITIVE_TYPES (Python 3 branch) and jsonclass.SUPPORTED_TYPES as type names",
        json_value=tt))

    sl = _slots_finder(sf) if sf is not None else None
    out.append(Fact(
        "slotsFinder", "Bool × Bool × Bool",
        None if sl is None else "(%s, %s, %s)" % tuple(lean_bool(x) for x in sl),
        ["C07"], "_slots_finder: (reads only vars(clazz)['__slots__'], mangles private names with the class's own name, "
                 "recurses into clazz.__bases__)", json_value=sl))

    mr = _non_fresh_writes(dump) if dump is not None else None
    out.append(Fact(
        "dumpNonFreshWrites", "List String",
        None if mr is None else lean_list(lean_str(x) for x in mr),
        ["C15"], "jsonclass.dump: roots of in-place writes (subscript/attribute stores, augmented assignments, deletes, "
                 "mutating method calls) that are not locals bound to fresh containers", json_value=mr))
    return out
