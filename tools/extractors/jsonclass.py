"""
Facts about jsonrpclib/jsonclass.py and the type tables of jsonrpclib/utils.py (C07, C08, C15, C20).

The functions are read in the normal form of tools/extractors/normalise_jc.py (private helpers inlined, idioms with the
same meaning brought to the same shape), and the facts that are statements about control flow ("the tests precede the
import") are computed by its path walk: a behaviour-preserving respelling leaves the facts as they are, an edit that
changes a guard, an argument or an order changes them as before.
"""
import ast
import os
import sys

from __main__ import Fact, lean_str, lean_bool, lean_list

sys.path.insert(0, os.path.dirname(os.path.abspath(__file__)))
import normalise_jc as NZ  # noqa: E402

PROPERTIES = ["C07", "C08", "C15", "C20"]

# private functions the facts name themselves (`slotsFinder`, "the result of _find_fields(obj)"): never inlined
KEEP = ("_find_fields", "_slots_finder")


def _parents(fn):
    par = {}
    for n in ast.walk(fn):
        for c in ast.iter_child_nodes(n):
            par[c] = n
    return par


def _calls_to(fn, name):
    """In source order (the order of a depth-first walk: positions are meaningless once helpers are inlined)."""
    return [n for n in NZ.dfs(fn) if isinstance(n, ast.Call) and isinstance(n.func, ast.Name) and n.func.id == name]


def _site(call, par, fn=None):
    """Where a recursive call sits: list comprehension, dict comprehension, argument of setattr / attrs[...] = …
    (`v = load(…)` whose only use is `setattr(o, k, v)` / `d[k] = v` counts as that use)."""
    n = call
    while n in par:
        p = par[n]
        if fn is not None and isinstance(p, ast.Assign) and p.value is n and len(p.targets) == 1 \
                and isinstance(p.targets[0], ast.Name):
            var = p.targets[0].id
            uses = [m for m in NZ.dfs_own(fn) if isinstance(m, ast.Name) and m.id == var and isinstance(m.ctx, ast.Load)]
            stores = [m for m in NZ.dfs_own(fn) if isinstance(m, ast.Name) and m.id == var and not isinstance(m.ctx, ast.Load)]
            if len(uses) == 1 and len(stores) == 1 and uses[0] in par and uses[0] is not call:
                u = par[uses[0]]
                if isinstance(u, ast.Call) and isinstance(u.func, ast.Name) and u.func.id == "setattr" and uses[0] in u.args:
                    return "setattr"
                if isinstance(u, ast.Assign) and u.value is uses[0] and any(isinstance(t, ast.Subscript) for t in u.targets):
                    return "field"
        if isinstance(p, ast.ListComp):
            return "list"
        if isinstance(p, ast.DictComp):
            return "dict"
        if isinstance(p, ast.Call) and isinstance(p.func, ast.Name) and p.func.id == "setattr":
            return "setattr"
        if isinstance(p, ast.Assign) and any(isinstance(t, ast.Subscript) for t in p.targets):
            return "field"
        if isinstance(p, ast.FunctionDef):
            break
        n = p
    return "other"


def _load_calls(fn):
    """[(site, forwards `classes`)] for the recursive load(...) calls, in source order."""
    par = _parents(fn)
    out = []
    for c in _calls_to(fn, "load"):
        fw = (len(c.args) >= 2 and isinstance(c.args[1], ast.Name) and c.args[1].id == "classes") or any(
            k.arg == "classes" and isinstance(k.value, ast.Name) and k.value.id == "classes" for k in c.keywords)
        out.append((_site(c, par, fn), bool(fw)))
    return out


def _dump_calls(fn):
    """[(site, forwards serialize_method, ignore_attribute, ignore, config unchanged)] for recursive dump(...) calls."""
    par = _parents(fn)
    want = ["serialize_method", "ignore_attribute", "ignore", "config"]
    out = []
    for c in _calls_to(fn, "dump"):
        names = [a.id if isinstance(a, ast.Name) else None for a in c.args[1:]]
        kw = dict((k.arg, k.value.id if isinstance(k.value, ast.Name) else None) for k in c.keywords)
        got = names + [kw.get(w) for w in want[len(names):]]
        out.append((_site(c, par, fn), got == want))
    return out


def _char_class(src):
    """INVALID_MODULE_CHARS = r"[^…]" -> (negated, sorted [(lo, hi)]) or None when it is not a single class."""
    node = src.assign_value("jsonclass", "INVALID_MODULE_CHARS")
    if not (isinstance(node, ast.Constant) and isinstance(node.value, str)):
        return None
    s = node.value
    if len(s) < 2 or s[0] != "[" or s[-1] != "]":
        return None
    body = s[1:-1]
    neg = body.startswith("^")
    if neg:
        body = body[1:]
    items = []
    i = 0
    while i < len(body):
        ch = body[i]
        if ch == "\\":
            if i + 1 >= len(body):
                return None
            nxt = body[i + 1]
            if nxt.isalnum():
                return None  # a class escape such as \w or \d: not a plain set of ranges
            ch = nxt
            i += 1
        elif ch in "[]":
            return None
        i += 1
        if i + 1 < len(body) and body[i] == "-":
            hi = body[i + 1]
            if hi == "\\":
                return None
            items.append((ord(ch), ord(hi)))
            i += 2
        else:
            items.append((ord(ch), ord(ch)))
    return neg, sorted(set(items))


def _compiled_patterns(src):
    """Module-level names of jsonclass.py bound to re.compile(INVALID_MODULE_CHARS)."""
    out = set()
    tree = src.module("jsonclass") if src is not None else None
    if tree is None:
        return out
    for st in tree.body:
        if isinstance(st, ast.Assign) and len(st.targets) == 1 and isinstance(st.targets[0], ast.Name) \
                and isinstance(st.value, ast.Call) and isinstance(st.value.func, ast.Attribute) \
                and st.value.func.attr == "compile" and len(st.value.args) >= 1 \
                and isinstance(st.value.args[0], ast.Name) and st.value.args[0].id == "INVALID_MODULE_CHARS":
            out.add(st.targets[0].id)
    return out


def _sub_call(value, compiled):
    """`re.sub(INVALID_MODULE_CHARS, "", name)` or `<compiled INVALID_MODULE_CHARS>.sub("", name)` -> name | None"""
    if not (isinstance(value, ast.Call) and isinstance(value.func, ast.Attribute) and value.func.attr == "sub"):
        return None
    a = value.args
    if len(a) == 3 and isinstance(a[0], ast.Name) and a[0].id == "INVALID_MODULE_CHARS" and isinstance(a[1], ast.Constant) \
            and a[1].value == "" and isinstance(a[2], ast.Name) and not value.keywords:
        return a[2].id
    if len(a) == 2 and isinstance(value.func.value, ast.Name) and value.func.value.id in compiled \
            and isinstance(a[0], ast.Constant) and a[0].value == "" and isinstance(a[1], ast.Name) and not value.keywords:
        return a[1].id
    return None


def _resolves_class(n):
    """A call of __import__ / import_module, or a subscript of the local class table `classes`."""
    if isinstance(n, ast.Call):
        f = n.func
        return (isinstance(f, ast.Name) and f.id in ("__import__", "import_module")) \
            or (isinstance(f, ast.Attribute) and f.attr == "import_module")
    return isinstance(n, ast.Subscript) and isinstance(n.value, ast.Name) and n.value.id == "classes"


def _is_translation_error(st):
    exc = st.exc if isinstance(st, ast.Raise) else None
    if isinstance(exc, ast.Call):
        exc = exc.func
    return isinstance(exc, ast.Name) and exc.id == "TranslationError"


def _validation_precedes_import(fn, src=None):
    """`clean = re.sub(INVALID_MODULE_CHARS, "", name)` (or the same through a module-level
    `re.compile(INVALID_MODULE_CHARS)`), and on EVERY path of `load` to the first statement that resolves the class (a
    call of __import__ / import_module, a subscript of `classes`) both `name` has been found true and `clean == name`
    has been found to hold; the paths on which one of the two tests fails leave, before any resolution, by
    `raise TranslationError`.  The shape of the tests (guard clause, nested `if`, `elif`, one combined condition, a
    helper that raises) and the local names are not significant; their outcome and their order with respect to the
    resolution are."""
    compiled = _compiled_patterns(src)
    sub = None  # (clean, name)
    for n in NZ.dfs_own(fn):
        if isinstance(n, ast.Assign) and len(n.targets) == 1 and isinstance(n.targets[0], ast.Name):
            name = _sub_call(n.value, compiled)
            if name is not None:
                sub = (n.targets[0].id, name)
    try:
        walk = NZ.Walk(NZ.strip_doc(fn.body), _resolves_class)
    except NZ.TooComplex:
        return None
    if not walk.hits:
        return None
    if sub is None:
        return False

    def kind(e):
        if isinstance(e, ast.Name) and e.id == sub[1]:
            return "empty"
        if isinstance(e, ast.Compare) and len(e.ops) == 1 and isinstance(e.ops[0], ast.Eq):
            names = sorted(x.id for x in [e.left] + e.comparators if isinstance(x, ast.Name))
            if names == sorted(sub) and len(names) == 2:
                return "chars"
        return None

    for conds, _ in walk.hits:
        passed = set(kind(e) for e, outcome, _ in conds if outcome)
        failed = set(kind(e) for e, outcome, _ in conds if not outcome)
        if not ("empty" in passed and "chars" in passed) or "empty" in failed or "chars" in failed:
            return False
    # the failing outcomes are reported as TranslationError
    rejected = set()
    for conds, st in walk.exits:
        if conds and not conds[-1][1] and kind(conds[-1][0]) is not None:
            if not _is_translation_error(st):
                return False
            rejected.add(kind(conds[-1][0]))
    return rejected == {"empty", "chars"}


def _jc_subscript(t):
    return isinstance(t, ast.Subscript) and isinstance(t.value, ast.Name) and t.value.id == "obj" \
        and isinstance(t.slice, ast.Constant) and t.slice.value == "__jsonclass__"


def _restores_in_finally(fn):
    """The loop calling setattr is the body of a `try` whose `finally` assigns obj["__jsonclass__"] the very object
    that was removed: a local bound (once) to `obj.pop("__jsonclass__")`, `obj["__jsonclass__"]` or
    `obj.get("__jsonclass__")`."""
    saved = {}
    for n in ast.walk(fn):
        if isinstance(n, ast.Assign):
            for t in n.targets:
                if isinstance(t, ast.Name):
                    v = n.value
                    ok = _jc_subscript(v) or (
                        isinstance(v, ast.Call) and isinstance(v.func, ast.Attribute) and v.func.attr in ("pop", "get")
                        and isinstance(v.func.value, ast.Name) and v.func.value.id == "obj" and len(v.args) == 1
                        and isinstance(v.args[0], ast.Constant) and v.args[0].value == "__jsonclass__")
                    saved[t.id] = saved.get(t.id, True) and ok
    saved = set(k for k, ok in saved.items() if ok)
    for n in ast.walk(fn):
        if isinstance(n, ast.Try) and n.finalbody:
            has_loop = any(isinstance(m, ast.Call) and isinstance(m.func, ast.Name) and m.func.id == "setattr"
                           for st in n.body for m in ast.walk(st))
            restores = any(
                isinstance(st, ast.Assign) and any(_jc_subscript(t) for t in st.targets)
                and isinstance(st.value, ast.Name) and st.value.id in saved
                for st in n.finalbody)
            if has_loop:
                return bool(restores)
    # no try at all around the loop
    return False


def _tuple_names(node, env):
    """Evaluates a tuple expression of type names symbolically."""
    if isinstance(node, ast.Tuple):
        out = []
        for e in node.elts:
            r = _tuple_names(e, env)
            if r is None:
                return None
            out.extend(r)
        return out
    if isinstance(node, ast.BinOp) and isinstance(node.op, ast.Add):
        a = _tuple_names(node.left, env)
        b = _tuple_names(node.right, env)
        return None if a is None or b is None else a + b
    if isinstance(node, ast.Name):
        if node.id in env:
            return env[node.id]
        return [node.id]
    if isinstance(node, ast.Attribute) and isinstance(node.value, ast.Name) and node.value.id == "utils":
        return env.get(node.attr)
    if isinstance(node, ast.Call) and isinstance(node.func, ast.Name) and node.func.id == "type" and len(node.args) == 1 \
            and isinstance(node.args[0], ast.Constant) and node.args[0].value is None:
        return ["NoneType"]
    return None


def _type_tables(src):
    tree = src.module("utils")
    if tree is None:
        return None
    env = {}

    def visit(body):
        for st in body:
            if isinstance(st, ast.If):
                # `if sys.version_info[0] < 3: … else: …`  -> Python 3 branch
                t = st.test
                if isinstance(t, ast.Compare) and isinstance(t.ops[0], ast.Lt) and "version_info" in ast.dump(t.left):
                    visit(st.orelse)
                continue
            if isinstance(st, ast.Assign) and len(st.targets) == 1 and isinstance(st.targets[0], ast.Name):
                name = st.targets[0].id
                if name.endswith("_TYPES") or name.endswith("Type"):
                    r = _tuple_names(st.value, env)
                    if r is not None:
                        env[name] = r

    visit(tree.body)
    sup = src.assign_value("jsonclass", "SUPPORTED_TYPES")
    supported = _tuple_names(sup, env) if sup is not None else None
    if "ITERABLE_TYPES" not in env or "PRIMITIVE_TYPES" not in env or supported is None:
        return None
    return env["ITERABLE_TYPES"], env["PRIMITIVE_TYPES"], supported


def _str_method_test(e, var, method):
    """`<var>.<method>("__")`"""
    return isinstance(e, ast.Call) and isinstance(e.func, ast.Attribute) and e.func.attr == method \
        and isinstance(e.func.value, ast.Name) and e.func.value.id == var and len(e.args) == 1 \
        and isinstance(e.args[0], ast.Constant) and e.args[0].value == "__"


def _mangles(fn, clazz):
    """There is a `"_{0}{1}".format(<clazz>.__name__.lstrip("_"), <slot>)` — <clazz> being the class visited, the
    first parameter — and every path of the slot loop to it has found `<slot>.startswith("__")` true and
    `<slot>.endswith("__")` false (whatever the spelling of the test; a helper is read in place)."""
    found = False
    for loop in NZ.dfs_own(fn):
        if not isinstance(loop, ast.For):
            continue
        for f in NZ.dfs_own(loop):
            if not (isinstance(f, ast.Call) and isinstance(f.func, ast.Attribute) and f.func.attr == "format"
                    and isinstance(f.func.value, ast.Constant) and f.func.value.value == "_{0}{1}" and len(f.args) == 2
                    and not f.keywords and isinstance(f.args[1], ast.Name)):
                continue
            a = f.args[0]
            own_name = isinstance(a, ast.Call) and isinstance(a.func, ast.Attribute) and a.func.attr == "lstrip" \
                and len(a.args) == 1 and isinstance(a.args[0], ast.Constant) and a.args[0].value == "_" \
                and isinstance(a.func.value, ast.Attribute) and a.func.value.attr == "__name__" \
                and isinstance(a.func.value.value, ast.Name) and a.func.value.value.id == clazz
            if not own_name:
                return False
            slot = f.args[1].id
            try:
                walk = NZ.Walk(loop.body, lambda n, f=f: n is f)
            except NZ.TooComplex:
                return False
            if not walk.hits:
                return False
            for conds, _ in walk.hits:
                if not any(_str_method_test(e, slot, "startswith") and o for e, o, _ in conds):
                    return False
                if not any(_str_method_test(e, slot, "endswith") and not o for e, o, _ in conds):
                    return False
                if any(_str_method_test(e, slot, "startswith") and not o for e, o, _ in conds) \
                        or any(_str_method_test(e, slot, "endswith") and o for e, o, _ in conds):
                    return False
            found = True
    return found


def _slots_finder(fn):
    """(reads only the class's own `vars(clazz)` slots, mangles private names with clazz.__name__.lstrip("_"),
    recurses into clazz.__bases__)"""
    single = NZ.single_assignments(fn)
    clazz = fn.args.args[0].arg if fn.args.args else None  # the class being visited
    own = False
    for n in ast.walk(fn):
        if isinstance(n, (ast.For, ast.comprehension)):
            it = NZ.resolve(n.iter, single)
            if isinstance(it, ast.Call) and isinstance(it.func, ast.Attribute) and it.func.attr == "get":
                v = it.func.value
                if isinstance(v, ast.Call) and isinstance(v.func, ast.Name) and v.func.id == "vars" and len(v.args) == 1 \
                        and isinstance(v.args[0], ast.Name) and v.args[0].id == clazz and it.args \
                        and isinstance(it.args[0], ast.Constant) and it.args[0].value == "__slots__":
                    own = True
    uses_inherited = any(isinstance(n, ast.Attribute) and n.attr == "__slots__" for n in ast.walk(fn))
    mangles = _mangles(fn, clazz)
    recurses = any(isinstance(n, ast.For) and isinstance(NZ.resolve(n.iter, single), ast.Attribute)
                   and NZ.resolve(n.iter, single).attr == "__bases__"
                   and _calls_to(n, "_slots_finder") for n in ast.walk(fn))
    return (own and not uses_inherited, bool(mangles), bool(recurses))


_MUTATORS = {"append", "extend", "insert", "remove", "pop", "clear", "sort", "reverse", "update", "add", "discard",
             "difference_update", "intersection_update", "symmetric_difference_update", "setdefault", "popitem"}


def _root(node):
    while isinstance(node, (ast.Subscript, ast.Attribute)):
        node = node.value
    return node.id if isinstance(node, ast.Name) else "?"


def _fresh_locals(fn):
    """Locals (not parameters) whose every assignment is a fresh container: a display, a comprehension or a
    call of dict/list/set/sorted (a new, shallow container whatever the argument) or of _find_fields."""
    params = set(a.arg for a in fn.args.args + fn.args.kwonlyargs)
    fresh = {}
    for n in ast.walk(fn):
        if isinstance(n, ast.Assign):
            for t in n.targets:
                if isinstance(t, ast.Name):
                    v = n.value
                    ok = isinstance(v, (ast.Dict, ast.List, ast.Set, ast.ListComp, ast.DictComp, ast.SetComp)) or (
                        isinstance(v, ast.Call) and isinstance(v.func, ast.Name)
                        and (v.func.id in ("dict", "list", "set", "sorted", "_find_fields")))
                    fresh[t.id] = fresh.get(t.id, True) and ok
    return set(k for k, v in fresh.items() if v and k not in params)


def _non_fresh_writes(fn):
    """Roots of the in-place writes of `dump` (subscript/attribute stores, augmented assignments, deletes,
    calls of mutating methods, setattr/delattr) that are not fresh locals: must be empty."""
    roots = set()
    for n in ast.walk(fn):
        if isinstance(n, (ast.Assign, ast.AnnAssign)):
            targets = n.targets if isinstance(n, ast.Assign) else [n.target]
            for t in targets:
                for e in (t.elts if isinstance(t, ast.Tuple) else [t]):
                    if isinstance(e, (ast.Subscript, ast.Attribute)):
                        roots.add(_root(e))
        elif isinstance(n, ast.AugAssign):
            roots.add(_root(n.target))
        elif isinstance(n, ast.Delete):
            for t in n.targets:
                roots.add(_root(t))
        elif isinstance(n, ast.Call):
            if isinstance(n.func, ast.Attribute) and n.func.attr in _MUTATORS:
                roots.add(_root(n.func.value))
            if isinstance(n.func, ast.Name) and n.func.id in ("setattr", "delattr") and n.args:
                roots.add(_root(n.args[0]))
    return sorted(roots - _fresh_locals(fn))


def _mentions(node, ident):
    return any(isinstance(n, ast.Name) and n.id == ident for n in ast.walk(node))


def _handler_first(fn):
    """The first statement after the docstring and the argument normalisation (plain assignments to names other than
    `obj` whose value does not mention `obj`) is the `try:` looking up config.serialize_handlers[type(obj)] (exact
    type); a non-None handler's result is returned as is.  Anything else ahead of it — an `if`, an `isinstance`
    test, a `type(obj) is …` shortcut, an early return — makes the fact false."""
    for st in fn.body:
        if isinstance(st, ast.Expr) and isinstance(st.value, ast.Constant):
            continue  # docstring
        if isinstance(st, (ast.Assign, ast.AnnAssign)):
            targets = st.targets if isinstance(st, ast.Assign) else [st.target]
            if all(isinstance(t, ast.Name) and t.id != "obj" for t in targets) and st.value is not None \
                    and not _mentions(st.value, "obj"):
                continue
            return False
        if not isinstance(st, ast.Try):
            return False
        ok = False
        for n in ast.walk(st):
            if isinstance(n, ast.Subscript) and isinstance(n.value, ast.Attribute) and n.value.attr == "serialize_handlers":
                sl = n.slice
                if isinstance(sl, ast.Call) and isinstance(sl.func, ast.Name) and sl.func.id == "type" and len(sl.args) == 1 \
                        and isinstance(sl.args[0], ast.Name) and sl.args[0].id == "obj":
                    ok = True
        # the local bound to the looked-up handler (its name is not significant)
        local = None
        for n in ast.walk(st):
            if isinstance(n, ast.Assign) and len(n.targets) == 1 and isinstance(n.targets[0], ast.Name) \
                    and isinstance(n.value, ast.Subscript) and isinstance(n.value.value, ast.Attribute) \
                    and n.value.value.attr == "serialize_handlers":
                local = n.targets[0].id
        returns_verbatim = local is not None and any(
            isinstance(n, ast.Return) and isinstance(n.value, ast.Call) and isinstance(n.value.func, ast.Name)
            and n.value.func.id == local for n in ast.walk(st))
        # the only condition on the way to that return is `<local> is not None`
        conds = [n.test for n in ast.walk(st) if isinstance(n, ast.If)]
        plain_guard = all(
            isinstance(t, ast.Compare) and isinstance(t.left, ast.Name) and t.left.id == local and len(t.ops) == 1
            and isinstance(t.ops[0], ast.IsNot) and isinstance(t.comparators[0], ast.Constant)
            and t.comparators[0].value is None for t in conds)
        if not ok:
            return None
        return bool(returns_verbatim and plain_guard)
    return None


def facts(src):
    load = NZ.normalised(src, "jsonclass", "load", KEEP)
    dump = NZ.normalised(src, "jsonclass", "dump", KEEP)
    sf = NZ.normalised(src, "jsonclass", "_slots_finder", KEEP)
    out = []

    lc = _load_calls(load) if load is not None else None
    out.append(Fact(
        "loadCalls", "List (String × Bool)",
        None if not lc else lean_list("(%s, %s)" % (lean_str(s), lean_bool(f)) for s, f in lc),
        ["C07"], "jsonclass.load: the recursive load(...) call sites in source order and whether each forwards `classes`",
        json_value=lc))

    dc = _dump_calls(dump) if dump is not None else None
    out.append(Fact(
        "dumpCalls", "List (String × Bool)",
        None if not dc else lean_list("(%s, %s)" % (lean_str(s), lean_bool(f)) for s, f in dc),
        ["C20"], "jsonclass.dump: the recursive dump(...) call sites and whether each forwards serialize_method, "
                 "ignore_attribute, ignore and config unchanged",
        json_value=dc))

    hf = _handler_first(dump) if dump is not None else None
    out.append(Fact(
        "handlerLookupFirst", "Bool", None if hf is None else lean_bool(hf), ["C20"],
        "jsonclass.dump: the lookup config.serialize_handlers[type(obj)] (exact type) is the first statement after the "
        "normalisation of the arguments and a non-None handler's result is returned as is", json_value=hf))

    cc = _char_class(src)
    out.append(Fact(
        "moduleCharClass", "Bool × List (Nat × Nat)",
        None if cc is None else "(%s, %s)" % (lean_bool(cc[0]), lean_list("(%d, %d)" % r for r in cc[1])),
        ["C08"], "INVALID_MODULE_CHARS as (negated?, code point ranges)", json_value=None if cc is None else [cc[0], cc[1]]))

    vp = _validation_precedes_import(load, src) if load is not None else None
    out.append(Fact(
        "validationPrecedesImport", "Bool", None if vp is None else lean_bool(vp), ["C08"],
        "jsonclass.load: the empty-name and invalid-character TranslationError tests (on re.sub(INVALID_MODULE_CHARS, \"\", name)) "
        "precede the statement that calls __import__", json_value=vp))

    rf = _restores_in_finally(load) if load is not None else None
    out.append(Fact(
        "loadRestoresInFinally", "Bool", None if rf is None else lean_bool(rf), ["C15"],
        "jsonclass.load: the setattr loop is the body of a try whose finally assigns obj[\"__jsonclass__\"] the object that was "
        "popped", json_value=rf))

    tt = _type_tables(src)
    out.append(Fact(
        "typeTables", "List String × List String × List String",
        None if tt is None else "(%s, %s, %s)" % tuple(lean_list(lean_str(x) for x in t) for t in tt),
        ["C15", "C07"], "utils.ITERABLE_TYPES, utils.PRIMITIVE_TYPES (Python 3 branch) and jsonclass.SUPPORTED_TYPES as type names",
        json_value=tt))

    sl = _slots_finder(sf) if sf is not None else None
    out.append(Fact(
        "slotsFinder", "Bool × Bool × Bool",
        None if sl is None else "(%s, %s, %s)" % tuple(lean_bool(x) for x in sl),
        ["C07"], "_slots_finder: (reads only vars(clazz)['__slots__'], mangles private names with the class's own name, "
                 "recurses into clazz.__bases__)", json_value=sl))

    mr = _non_fresh_writes(dump) if dump is not None else None
    out.append(Fact(
        "dumpNonFreshWrites", "List String",
        None if mr is None else lean_list(lean_str(x) for x in mr),
        ["C15"], "jsonclass.dump: roots of in-place writes (subscript/attribute stores, augmented assignments, deletes, "
                 "mutating method calls) that are not locals bound to fresh containers", json_value=mr))
    return out
