"""
More facts about jsonrpclib/jsonclass.py and the `use_jsonclass` gates of jsonrpclib/jsonrpc.py (C08, C20).
(The facts shared with C07/C15 are in jsonclass.py.)
"""
import ast

from __main__ import Fact, lean_str, lean_bool, lean_list

PROPERTIES = ["C08", "C20"]


def _is_name(n, ident):
    return isinstance(n, ast.Name) and n.id == ident


def _is_cfg_attr(n, attr):
    return isinstance(n, ast.Attribute) and n.attr == attr and _is_name(n.value, "config")


def _known_types(fn):
    """`known_types = SUPPORTED_TYPES + tuple(config.serialize_handlers)` (either order) and the field test is
    `isinstance(attr_value, known_types)`."""
    target = None
    for n in ast.walk(fn):
        if isinstance(n, ast.Assign) and len(n.targets) == 1 and isinstance(n.targets[0], ast.Name) \
                and isinstance(n.value, ast.BinOp) and isinstance(n.value.op, ast.Add):
            parts = [n.value.left, n.value.right]
            has_sup = any(_is_name(p, "SUPPORTED_TYPES") for p in parts)
            has_h = any(isinstance(p, ast.Call) and _is_name(p.func, "tuple") and len(p.args) == 1
                        and _is_cfg_attr(p.args[0], "serialize_handlers") for p in parts)
            if has_sup:
                target = (n.targets[0].id, has_h)
    if target is None:
        return None
    name, has_h = target
    used = any(isinstance(n, ast.Call) and _is_name(n.func, "isinstance") and len(n.args) == 2 and _is_name(n.args[1], name)
               for n in ast.walk(fn))
    return bool(has_h and used)


def _ignore_assembly(fn):
    """(ignore_list = getattr(obj, ignore_attribute, []) + ignore,
        fields.difference_update(ignore_list) on the result of _find_fields(obj),
        the field test contains `attr_value not in ignore_list`)"""
    il = None
    for n in ast.walk(fn):
        if isinstance(n, ast.Assign) and len(n.targets) == 1 and isinstance(n.targets[0], ast.Name) \
                and isinstance(n.value, ast.BinOp) and isinstance(n.value.op, ast.Add):
            l, r = n.value.left, n.value.right
            if isinstance(l, ast.Call) and _is_name(l.func, "getattr") and len(l.args) == 3 and _is_name(l.args[0], "obj") \
                    and _is_name(l.args[1], "ignore_attribute") and isinstance(l.args[2], ast.List) and not l.args[2].elts \
                    and _is_name(r, "ignore"):
                il = n.targets[0].id
    if il is None:
        return None
    fields = None
    for n in ast.walk(fn):
        if isinstance(n, ast.Assign) and len(n.targets) == 1 and isinstance(n.targets[0], ast.Name) \
                and isinstance(n.value, ast.Call) and _is_name(n.value.func, "_find_fields") \
                and len(n.value.args) == 1 and _is_name(n.value.args[0], "obj"):
            fields = n.targets[0].id
    diff = False
    loop_over_fields = False
    if fields is not None:
        for n in ast.walk(fn):
            if isinstance(n, ast.Call) and isinstance(n.func, ast.Attribute) and n.func.attr == "difference_update" \
                    and _is_name(n.func.value, fields) and len(n.args) == 1 and _is_name(n.args[0], il):
                diff = True
            if isinstance(n, ast.For) and _is_name(n.iter, fields):
                loop_over_fields = True
    notin = any(isinstance(n, ast.Compare) and len(n.ops) == 1 and isinstance(n.ops[0], ast.NotIn)
                and _is_name(n.comparators[0], il) for n in ast.walk(fn))
    return True, bool(diff and loop_over_fields), bool(notin)


def _dump_defaults(fn):
    """The first statements are `serialize_method = serialize_method or config.serialize_method`,
    `ignore_attribute = ignore_attribute or config.ignore_attribute`, `ignore = ignore or []`."""
    got = {"serialize_method": False, "ignore_attribute": False, "ignore": False}
    for st in fn.body:
        if isinstance(st, ast.Expr) and isinstance(st.value, ast.Constant):
            continue  # docstring
        if not (isinstance(st, ast.Assign) and len(st.targets) == 1 and isinstance(st.targets[0], ast.Name)):
            break
        t = st.targets[0].id
        v = st.value
        if t in got and isinstance(v, ast.BoolOp) and isinstance(v.op, ast.Or) and len(v.values) == 2 and _is_name(v.values[0], t):
            d = v.values[1]
            if t == "ignore":
                got[t] = isinstance(d, ast.List) and not d.elts
            else:
                got[t] = _is_cfg_attr(d, t)
        else:
            break
    return got["serialize_method"], got["ignore_attribute"], got["ignore"]


def _handler_local(fn):
    """Name of the local bound to config.serialize_handlers[type(obj)]."""
    for n in ast.walk(fn):
        if isinstance(n, ast.Assign) and len(n.targets) == 1 and isinstance(n.targets[0], ast.Name) \
                and isinstance(n.value, ast.Subscript) and _is_cfg_attr(n.value.value, "serialize_handlers"):
            return n.targets[0].id
    return None


def _handler_call_args(fn):
    """Argument names of the call of the handler found in config.serialize_handlers."""
    local = _handler_local(fn)
    if local is None:
        return None
    for n in ast.walk(fn):
        if isinstance(n, ast.Call) and _is_name(n.func, local) and not n.keywords:
            return [a.id if isinstance(a, ast.Name) else "?" for a in n.args]
    return None


def _names_consulted(fn):
    """hasattr(obj, serialize_method) guards `getattr(obj, serialize_method)`; no other hasattr/getattr on obj takes a
    string literal; returns the attribute-name arguments of every hasattr/getattr on `obj`, in source order."""
    out = []
    params = set(a.arg for a in fn.args.args)
    calls = [n for n in ast.walk(fn) if isinstance(n, ast.Call) and isinstance(n.func, ast.Name)
             and n.func.id in ("hasattr", "getattr") and len(n.args) >= 2 and _is_name(n.args[0], "obj")]
    for n in sorted(calls, key=lambda c: (c.lineno, c.col_offset)):
        a = n.args[1]
        if isinstance(a, ast.Name):
            # parameters keep their name (they are part of the API); any other variable is "<var>"
            out.append("%s:%s" % (n.func.id, a.id if a.id in params else "<var>"))
        elif isinstance(a, ast.Constant):
            out.append("%s:%r" % (n.func.id, a.value))
        else:
            out.append("%s:?" % n.func.id)
    return out


def _gate(fn, target_attr):
    """Every call `jsonclass.<target_attr>(...)` of the function sits in the body (not the else) of an
    `if config.use_jsonclass:`; there is at least one.  -> bool | None"""
    if fn is None:
        return None
    par = {}
    for n in ast.walk(fn):
        for c in ast.iter_child_nodes(n):
            par[c] = n
    calls = [n for n in ast.walk(fn) if isinstance(n, ast.Call) and isinstance(n.func, ast.Attribute)
             and n.func.attr == target_attr and _is_name(n.func.value, "jsonclass")]
    if not calls:
        return None
    for c in calls:
        n = c
        gated = False
        while n in par:
            p = par[n]
            if isinstance(p, ast.If) and _is_cfg_attr(p.test, "use_jsonclass") and any(n is b or _contains(b, n) for b in p.body):
                gated = True
                break
            # early-return form: an earlier statement of the same block is `if not config.use_jsonclass: return <name>`
            for field in ("body", "orelse", "finalbody"):
                block = getattr(p, field, None)
                if isinstance(block, list) and any(n is st for st in block):
                    for st in block:
                        if st is n:
                            break
                        if isinstance(st, ast.If) and not st.orelse and isinstance(st.test, ast.UnaryOp) \
                                and isinstance(st.test.op, ast.Not) and _is_cfg_attr(st.test.operand, "use_jsonclass") \
                                and len(st.body) == 1 and isinstance(st.body[0], ast.Return):
                            gated = True
            if gated:
                break
            n = p
        if not gated:
            return False
    return True


def _contains(root, node):
    return any(x is node for x in ast.walk(root))


def _loads_calls_load(src):
    """jsonrpc.loads returns load(<parsed>, config) (the gate of `load` is on the path of every decoded text)."""
    fn = src.func("jsonrpc", "loads")
    if fn is None:
        return None
    for n in ast.walk(fn):
        if isinstance(n, ast.Return) and isinstance(n.value, ast.Call) and _is_name(n.value.func, "load") \
                and len(n.value.args) == 2 and _is_name(n.value.args[1], "config"):
            return True
    return False


def facts(src):
    dump = src.func("jsonclass", "dump")
    out = []

    kt = _known_types(dump) if dump is not None else None
    out.append(Fact("knownTypesIncludeHandlers", "Bool", None if kt is None else lean_bool(kt), ["C20"],
                    "jsonclass.dump: known_types = SUPPORTED_TYPES + tuple(config.serialize_handlers) and the field test is "
                    "isinstance(attr_value, known_types)", json_value=kt))

    ia = _ignore_assembly(dump) if dump is not None else None
    out.append(Fact("ignoreAssembly", "Bool × Bool × Bool",
                    None if ia is None else "(%s, %s, %s)" % tuple(lean_bool(x) for x in ia), ["C20"],
                    "jsonclass.dump: (ignore_list = getattr(obj, ignore_attribute, []) + ignore, "
                    "fields.difference_update(ignore_list) before the loop over the fields, `attr_value not in ignore_list` in the field test)",
                    json_value=None if ia is None else list(ia)))

    dd = _dump_defaults(dump) if dump is not None else None
    out.append(Fact("dumpDefaults", "Bool × Bool × Bool",
                    None if dd is None else "(%s, %s, %s)" % tuple(lean_bool(x) for x in dd), ["C20"],
                    "jsonclass.dump starts with serialize_method = serialize_method or config.serialize_method; "
                    "ignore_attribute = ignore_attribute or config.ignore_attribute; ignore = ignore or []",
                    json_value=None if dd is None else list(dd)))

    hc = _handler_call_args(dump) if dump is not None else None
    out.append(Fact("handlerCallArgs", "List String", None if hc is None else lean_list(lean_str(x) for x in hc), ["C20"],
                    "jsonclass.dump: the arguments of the serializer(...) call", json_value=hc))

    nc = _names_consulted(dump) if dump is not None else None
    out.append(Fact("attributeNamesConsulted", "List String", None if not nc else lean_list(lean_str(x) for x in nc), ["C20"],
                    "jsonclass.dump: the attribute-name argument of every hasattr/getattr on obj, in source order",
                    json_value=nc))

    gd = _gate(src.func("jsonrpc", "dump"), "dump")
    gl = _gate(src.func("jsonrpc", "load"), "load")
    out.append(Fact("useJsonclassGates", "Bool × Bool",
                    None if gd is None or gl is None else "(%s, %s)" % (lean_bool(gd), lean_bool(gl)), ["C08"],
                    "jsonrpc.dump / jsonrpc.load: every call of jsonclass.dump / jsonclass.load is in the body of `if config.use_jsonclass:`",
                    json_value=None if gd is None or gl is None else [gd, gl]))

    ll = _loads_calls_load(src)
    out.append(Fact("loadsCallsLoad", "Bool", None if ll is None else lean_bool(ll), ["C08"],
                    "jsonrpc.loads returns load(<parsed text>, config)", json_value=ll))
    return out
