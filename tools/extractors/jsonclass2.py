"""
More facts about jsonrpclib/jsonclass.py and the `use_jsonclass` gates of jsonrpclib/jsonrpc.py (C08, C20).
(The facts shared with C07/C15 are in jsonclass.py.)
"""
import ast
import os
import sys

from __main__ import Fact, lean_str, lean_bool, lean_list

sys.path.insert(0, os.path.dirname(os.path.abspath(__file__)))
import normalise_jc as NZ  # noqa: E402

PROPERTIES = ["C08", "C20"]

# private functions the facts name themselves: never inlined (see jsonclass.py)
KEEP = ("_find_fields", "_slots_finder")


def _is_name(n, ident):
    return isinstance(n, ast.Name) and n.id == ident


def _is_cfg_attr(n, attr):
    return isinstance(n, ast.Attribute) and n.attr == attr and _is_name(n.value, "config")


def _known_sum(node, single):
    """`SUPPORTED_TYPES + tuple(config.serialize_handlers)` (either order), directly or through locals bound once:
    None when the expression does not mention SUPPORTED_TYPES, else whether the handled types are added."""
    node = NZ.resolve(node, single)
    if _is_name(node, "SUPPORTED_TYPES"):
        return False
    if isinstance(node, ast.BinOp) and isinstance(node.op, ast.Add):
        parts = [NZ.resolve(node.left, single), NZ.resolve(node.right, single)]
        has_sup = any(_is_name(p, "SUPPORTED_TYPES") for p in parts)
        has_h = any(isinstance(p, ast.Call) and _is_name(p.func, "tuple") and len(p.args) == 1
                    and _is_cfg_attr(NZ.resolve(p.args[0], single), "serialize_handlers") for p in parts)
        if has_sup:
            return bool(has_h)
    if any(_is_name(n, "SUPPORTED_TYPES") for n in ast.walk(node)):
        return False
    return None


def _known_types(fn):
    """The type argument of every `isinstance` test made against the supported types is
    `SUPPORTED_TYPES + tuple(config.serialize_handlers)` (either order; written in place or through a local bound
    once, whatever its name), and there is such a test."""
    single = NZ.single_assignments(fn)
    found = []
    for n in ast.walk(fn):
        if isinstance(n, ast.Call) and _is_name(n.func, "isinstance") and len(n.args) == 2:
            r = _known_sum(n.args[1], single)
            if r is not None:
                found.append(r)
    if not found:
        # the sum may exist without being used in a test
        if any(_known_sum(v, single) is not None for v in single.values()):
            return False
        return None
    return all(found)


def _single_assignments(fn):
    """name -> value for the locals assigned exactly once by a plain `name = value`."""
    seen = {}
    for n in ast.walk(fn):
        if isinstance(n, ast.Assign):
            for t in n.targets:
                if isinstance(t, ast.Name):
                    seen.setdefault(t.id, []).append(n.value)
        elif isinstance(n, (ast.AugAssign, ast.AnnAssign)) and isinstance(n.target, ast.Name):
            seen.setdefault(n.target.id, []).append(None)
    return dict((k, v[0]) for k, v in seen.items() if len(v) == 1 and v[0] is not None)


def _is_own_ignore(node, single):
    """`getattr(obj, ignore_attribute, [])`, directly or through a local assigned once to it."""
    if isinstance(node, ast.Name) and node.id in single:
        node = single[node.id]
    return isinstance(node, ast.Call) and _is_name(node.func, "getattr") and len(node.args) == 3 \
        and _is_name(node.args[0], "obj") and _is_name(node.args[1], "ignore_attribute") \
        and isinstance(node.args[2], ast.List) and not node.args[2].elts


def _ignore_lists(fn):
    """The assignments `<name> = getattr(obj, ignore_attribute, []) + ignore` (the first operand possibly through a
    local assigned once): [(Assign node, name)]."""
    single = _single_assignments(fn)
    out = []
    for n in ast.walk(fn):
        if isinstance(n, ast.Assign) and len(n.targets) == 1 and isinstance(n.targets[0], ast.Name) \
                and isinstance(n.value, ast.BinOp) and isinstance(n.value.op, ast.Add):
            if _is_own_ignore(n.value.left, single) and _is_name(n.value.right, "ignore"):
                out.append((n, n.targets[0].id))
    return out


def _method_branch(fn):
    """The `if hasattr(obj, serialize_method):` statement of dump."""
    for n in ast.walk(fn):
        if isinstance(n, ast.If) and isinstance(n.test, ast.Call) and _is_name(n.test.func, "hasattr") \
                and len(n.test.args) == 2 and _is_name(n.test.args[0], "obj") and _is_name(n.test.args[1], "serialize_method"):
            return n
    return None


def _within(node, stmts):
    return any(x is node for st in stmts for x in ast.walk(st))


def _ignore_assembly(fn):
    """(ignore_list = getattr(obj, ignore_attribute, []) + ignore,
        fields.difference_update(ignore_list) on the result of _find_fields(obj) before a loop over the fields,
        the field test contains `attr_value not in ignore_list`) — in the field-wise (`else:`) part of dump."""
    branch = _method_branch(fn)
    lists = [(n, name) for n, name in _ignore_lists(fn) if branch is None or not _within(n, branch.body)]
    if not lists:
        return None
    il = lists[-1][1]
    fields = None
    for n in ast.walk(fn):
        if isinstance(n, ast.Assign) and len(n.targets) == 1 and isinstance(n.targets[0], ast.Name):
            v = n.value
            if isinstance(v, ast.Call) and _is_name(v.func, "set") and len(v.args) == 1:
                v = v.args[0]
            if isinstance(v, ast.Call) and _is_name(v.func, "_find_fields") and len(v.args) == 1 and _is_name(v.args[0], "obj"):
                fields = n.targets[0].id
    diff = False
    loop_over_fields = False
    if fields is not None:
        for n in ast.walk(fn):
            if isinstance(n, ast.Call) and isinstance(n.func, ast.Attribute) and n.func.attr == "difference_update" \
                    and _is_name(n.func.value, fields) and len(n.args) == 1 and _is_name(n.args[0], il):
                diff = True
            if isinstance(n, ast.For):
                it = n.iter
                if isinstance(it, ast.Call) and isinstance(it.func, ast.Name) and it.func.id in ("sorted", "list", "tuple") \
                        and len(it.args) == 1 and not it.keywords:
                    it = it.args[0]
                if _is_name(it, fields):
                    loop_over_fields = True
    notin = any(isinstance(n, ast.Compare) and len(n.ops) == 1 and isinstance(n.ops[0], ast.NotIn)
                and _is_name(n.comparators[0], il) and (branch is None or not _within(n, branch.body)) for n in ast.walk(fn))
    return True, bool(diff and loop_over_fields), bool(notin)


def _filtered_comprehension(n, attrs, il):
    """A comprehension / generator over `<attrs>.items()` (or over the keys of <attrs>) whose only condition is
    `<key> not in <il>`."""
    if not (isinstance(n, (ast.GeneratorExp, ast.DictComp, ast.ListComp)) and len(n.generators) == 1):
        return False
    g = n.generators[0]
    it = g.iter
    key = None
    if isinstance(it, ast.Call) and isinstance(it.func, ast.Attribute) and it.func.attr == "items" and _is_name(it.func.value, attrs):
        key = g.target.elts[0].id if isinstance(g.target, ast.Tuple) and g.target.elts and isinstance(g.target.elts[0], ast.Name) else None
    elif _is_name(it, attrs) or (isinstance(it, ast.Call) and isinstance(it.func, ast.Attribute) and it.func.attr == "keys"
                                 and _is_name(it.func.value, attrs) and not it.args):
        key = g.target.id if isinstance(g.target, ast.Name) else None
    if key is None or len(g.ifs) != 1:
        return False
    c = g.ifs[0]
    return isinstance(c, ast.Compare) and len(c.ops) == 1 and isinstance(c.ops[0], ast.NotIn) and _is_name(c.left, key) \
        and _is_name(c.comparators[0], il)


def _serial_ignore_filter(fn):
    """In the `if hasattr(obj, serialize_method):` branch: `<il> = getattr(obj, ignore_attribute, []) + ignore` and the
    attributes returned by the method reach the result only through a comprehension / generator over
    `<attrs>.items()` whose condition is `<key> not in <il>` — an explicit `for … : if <key> not in <il>: d[k] = v`
    is that generator (normalise_jc) — never through an unfiltered `update(<attrs>)` or an item-wise copy."""
    branch = _method_branch(fn)
    if branch is None:
        return None
    lists = [name for n, name in _ignore_lists(fn) if _within(n, branch.body)]
    if not lists:
        return False
    il = lists[-1]
    # the name bound to the second component of the method's result
    attrs = None
    for st in branch.body:
        for n in ast.walk(st):
            if isinstance(n, ast.Assign) and len(n.targets) == 1 and isinstance(n.targets[0], ast.Tuple) \
                    and len(n.targets[0].elts) == 2 and all(isinstance(e, ast.Name) for e in n.targets[0].elts):
                attrs = n.targets[0].elts[1].id
    if attrs is None:
        return None
    single = NZ.single_assignments(fn)
    filtered = False
    unfiltered = False
    good = set()
    for st in branch.body:
        for n in ast.walk(st):
            if _filtered_comprehension(n, attrs, il):
                filtered = True
                good |= set(id(m) for m in ast.walk(n))
    for st in branch.body:
        for n in ast.walk(st):
            if isinstance(n, ast.Call) and isinstance(n.func, ast.Attribute) and n.func.attr == "update" and len(n.args) == 1:
                a = NZ.resolve(n.args[0], single)
                if _is_name(a, attrs) or (id(a) not in good and any(_is_name(m, attrs) and id(m) not in good for m in ast.walk(a))):
                    unfiltered = True
            if isinstance(n, ast.Assign) and any(isinstance(t, ast.Subscript) for t in n.targets) \
                    and any(_is_name(m, attrs) for m in ast.walk(n)):
                unfiltered = True  # an item-wise copy that the normal form could not read as a filtered generator
    return bool(filtered and not unfiltered)


def _dump_defaults(fn):
    """The first statements are `serialize_method = serialize_method or config.serialize_method`,
    `ignore_attribute = ignore_attribute or config.ignore_attribute`, `ignore = ignore or []`."""
    got = {"serialize_method": False, "ignore_attribute": False, "ignore": False}
    for st in fn.body:
        if isinstance(st, ast.Expr) and isinstance(st.value, ast.Constant):
            continue  # docstring
        if not (isinstance(st, ast.Assign) and len(st.targets) == 1 and isinstance(st.targets[0], ast.Name)):
            break
        t = st.targets[0].id
        v = st.value
        if t in got and isinstance(v, ast.BoolOp) and isinstance(v.op, ast.Or) and len(v.values) == 2 and _is_name(v.values[0], t):
            d = v.values[1]
            if t == "ignore":
                got[t] = isinstance(d, ast.List) and not d.elts
            else:
                got[t] = _is_cfg_attr(d, t)
        else:
            break
    return got["serialize_method"], got["ignore_attribute"], got["ignore"]


def _handler_local(fn):
    """Name of the local bound to config.serialize_handlers[type(obj)]."""
    for n in ast.walk(fn):
        if isinstance(n, ast.Assign) and len(n.targets) == 1 and isinstance(n.targets[0], ast.Name) \
                and isinstance(n.value, ast.Subscript) and _is_cfg_attr(n.value.value, "serialize_handlers"):
            return n.targets[0].id
    return None


def _handler_call_args(fn):
    """Argument names of the call of the handler found in config.serialize_handlers."""
    local = _handler_local(fn)
    if local is None:
        return None
    for n in ast.walk(fn):
        if isinstance(n, ast.Call) and _is_name(n.func, local) and not n.keywords:
            return [a.id if isinstance(a, ast.Name) else "?" for a in n.args]
    return None


def _names_consulted(fn):
    """The attribute-name arguments of every hasattr/getattr on `obj`, as a sorted set: parameters keep their name
    (they are part of the API), any other variable is "<var>", a literal is shown as such."""
    out = set()
    params = set(a.arg for a in fn.args.args)
    calls = [n for n in ast.walk(fn) if isinstance(n, ast.Call) and isinstance(n.func, ast.Name)
             and n.func.id in ("hasattr", "getattr") and len(n.args) >= 2 and _is_name(n.args[0], "obj")]
    for n in calls:
        a = n.args[1]
        if isinstance(a, ast.Name):
            out.add("%s:%s" % (n.func.id, a.id if a.id in params else "<var>"))
        elif isinstance(a, ast.Constant):
            out.add("%s:%r" % (n.func.id, a.value))
        else:
            out.add("%s:?" % n.func.id)
    return sorted(out)


def _gate(fn, target_attr):
    """Every call `jsonclass.<target_attr>(...)` of the function is reached exactly under `config.use_jsonclass`: on
    every path to it the LAST condition evaluated is `config.use_jsonclass` found true, and the `if` that tests it
    tests nothing else (`if config.use_jsonclass:` around the call and `if not config.use_jsonclass: return …` before
    it are the same thing; `if config.use_jsonclass and <more>:`, a further test between the gate and the call, or a
    path that reaches the call without the gate are not).  There is at least one such call.  -> bool | None"""
    if fn is None:
        return None
    calls = [n for n in NZ.dfs_own(fn) if isinstance(n, ast.Call) and isinstance(n.func, ast.Attribute)
             and n.func.attr == target_attr and _is_name(n.func.value, "jsonclass")]
    if not calls:
        return None
    for c in calls:
        try:
            walk = NZ.Walk(NZ.strip_doc(fn.body), lambda n, c=c: n is c)
        except NZ.TooComplex:
            return None
        if not walk.hits:
            return False
        for conds, _ in walk.hits:
            if not conds:
                return False
            e, outcome, owner = conds[-1]
            if not (_is_cfg_attr(e, "use_jsonclass") and outcome):
                return False
            if sum(1 for x in conds if x[2] == owner) != 1:
                return False
    return True


def _contains(root, node):
    return any(x is node for x in ast.walk(root))


def _loads_calls_load(src):
    """jsonrpc.loads returns load(<parsed>, config) (the gate of `load` is on the path of every decoded text) —
    directly or through a local bound once."""
    fn = NZ.normalised(src, "jsonrpc", "loads")
    if fn is None:
        return None
    single = NZ.single_assignments(fn)
    for n in NZ.dfs_own(fn):
        v = NZ.resolve(n.value, single) if isinstance(n, ast.Return) and n.value is not None else None
        if isinstance(v, ast.Call) and _is_name(v.func, "load"):
            cfg = v.args[1] if len(v.args) == 2 else next((k.value for k in v.keywords if k.arg == "config"), None)
            if cfg is not None and _is_name(cfg, "config") and len(v.args) + len(v.keywords) == 2 and len(v.args) >= 1:
                return True
    return False


class _Inline(ast.NodeTransformer):
    """Replaces locals bound exactly once by the expression they were bound to (everywhere inside an expression)."""

    def __init__(self, single):
        self.single = single
        self.depth = 0

    def visit_Name(self, node):
        if isinstance(node.ctx, ast.Load) and node.id in self.single and self.depth < 6:
            self.depth += 1
            try:
                return self.visit(NZ.copy.deepcopy(self.single[node.id]))
            finally:
                self.depth -= 1
        return node


def _empty_text_test(e, param):
    """Is `e` a test of the parameter being the empty text?  -> the outcome of `e` that means "empty", or None."""
    if _is_name(e, param):
        return False  # `if data:` is true for a non-empty text
    if isinstance(e, ast.Compare) and len(e.ops) == 1:
        a, b = e.left, e.comparators[0]
        for x, y in ((a, b), (b, a)):
            is_len = isinstance(x, ast.Call) and _is_name(x.func, "len") and len(x.args) == 1 and _is_name(x.args[0], param) \
                and not x.keywords
            if (_is_name(x, param) and isinstance(y, ast.Constant) and y.value == "") or \
                    (is_len and isinstance(y, ast.Constant) and y.value == 0 and type(y.value) is int):
                if isinstance(e.ops[0], ast.Eq):
                    return True
                if isinstance(e.ops[0], ast.NotEq):
                    return False
    return None


def _loads_returns(src):
    """Every way out of jsonrpc.loads(data, config) by `return`: [(conditions on the path, returned expression)], sorted.
    Conditions: the atomic tests in evaluation order with their outcome, `; `-separated; a test of the text being empty (`data ==
    ""`, `not data`, `len(data) == 0`, …) is written `empty(data)` / `not empty(data)`.  Returned expression: locals bound once
    replaced by what they were bound to.  The model (`Payload.loads`) is: `None` for the empty text, `load(jloads(data), config)`
    for every other text — whatever else reads the raw text (a substring test, a prefix test, a length test) shows here."""
    fn = NZ.normalised(src, "jsonrpc", "loads")
    if fn is None:
        return None
    params = [a.arg for a in fn.args.args]
    if not params:
        return None
    param = params[0]
    single = NZ.single_assignments(fn)
    try:
        w = NZ.Walk(NZ.strip_doc(fn.body), lambda n: isinstance(n, ast.Return))
    except NZ.TooComplex:
        return None
    out = []
    for conds, st in w.hits:
        cs = []
        for e, outcome, _owner in conds:
            if e is None:
                cs.append("except")
                continue
            emp = _empty_text_test(e, param)
            if emp is not None:
                cs.append("empty(%s)" % param if outcome == emp else "not empty(%s)" % param)
            else:
                text = ast.unparse(_Inline(single).visit(NZ.copy.deepcopy(e)))
                cs.append(text if outcome else "not (%s)" % text)
        # consecutive duplicates (the same test met twice on a path) say nothing new
        dedup = []
        for c in cs:
            if not dedup or dedup[-1] != c:
                dedup.append(c)
        ret = st if isinstance(st, ast.Return) else next((n for n in NZ.dfs_own(st) if isinstance(n, ast.Return)), None)
        val = "None" if ret is None or ret.value is None else ast.unparse(_Inline(single).visit(NZ.copy.deepcopy(ret.value)))
        out.append(("; ".join(dedup), val))
    if w.falls:
        out.append(("<falls off the end>", "None"))
    return sorted(set(out))


CONFIG_POS = {"dump": 6, "dumps": 7, "load": 1, "loads": 1, "Fault": 4}


def _config_call_sites(src):
    """Every call of dump / dumps / load / loads / Fault(...) (by bare name or as jsonrpclib.<name>) in jsonrpc.py and
    SimpleJSONRPCServer.py: (module, enclosing class or "", enclosing function, callee, the expression passed as
    `config` — "" when none is passed), sorted, without duplicates.  A call site that drops its configuration falls
    back to the library default, i.e. to use_jsonclass=True, whatever the proxy or the server was configured with.

    A site whose configuration is a PARAMETER of a private helper says nothing by itself: the sites are read on
    jsonclass3.transparent_modules, where such a helper (when it is simple) is inlined into its callers, parameters
    replaced by the arguments of each call, so that the site is a site of every caller with the expression the caller
    hands over — nothing when the caller or the helper drops it.  Locals bound once to a plain reference
    (`cfg = self._config`) are replaced by it."""
    import jsonclass3
    trees = jsonclass3.transparent_modules(src)
    if trees is None:
        return None
    out = set()
    for mod in ("jsonrpc", "SimpleJSONRPCServer"):
        tree = trees[mod]

        def visit(node, cls, fn):
            for ch in ast.iter_child_nodes(node):
                if isinstance(ch, ast.ClassDef):
                    visit(ch, ch.name, fn)
                    continue
                if isinstance(ch, ast.FunctionDef):
                    visit(ch, cls, ch.name if not fn else fn)
                    continue
                if isinstance(ch, ast.Call):
                    f = ch.func
                    name = None
                    if isinstance(f, ast.Name):
                        name = f.id
                    elif isinstance(f, ast.Attribute) and _is_name(f.value, "jsonrpclib"):
                        name = f.attr
                    if name in CONFIG_POS:
                        expr = ""
                        for k in ch.keywords:
                            if k.arg == "config":
                                expr = ast.unparse(k.value)
                        if not expr and len(ch.args) > CONFIG_POS[name]:
                            expr = ast.unparse(ch.args[CONFIG_POS[name]])
                        out.add((mod, cls, fn, name, expr))
                visit(ch, cls, fn)

        visit(tree, "", "")
    return sorted(out)


def facts(src):
    dump = NZ.normalised(src, "jsonclass", "dump", KEEP)
    out = []

    kt = _known_types(dump) if dump is not None else None
    out.append(Fact("knownTypesIncludeHandlers", "Bool", None if kt is None else lean_bool(kt), ["C20"],
                    "jsonclass.dump: known_types = SUPPORTED_TYPES + tuple(config.serialize_handlers) and the field test is "
                    "isinstance(attr_value, known_types)", json_value=kt))

    ia = _ignore_assembly(dump) if dump is not None else None
    out.append(Fact("ignoreAssembly", "Bool × Bool × Bool",
                    None if ia is None else "(%s, %s, %s)" % tuple(lean_bool(x) for x in ia), ["C20"],
                    "jsonclass.dump, field-wise branch: (ignore_list = getattr(obj, ignore_attribute, []) + ignore, "
                    "fields.difference_update(ignore_list) before the loop over the fields, `attr_value not in ignore_list` in the field test)",
                    json_value=None if ia is None else list(ia)))

    dd = _dump_defaults(dump) if dump is not None else None
    out.append(Fact("dumpDefaults", "Bool × Bool × Bool",
                    None if dd is None else "(%s, %s, %s)" % tuple(lean_bool(x) for x in dd), ["C20"],
                    "jsonclass.dump starts with serialize_method = serialize_method or config.serialize_method; "
                    "ignore_attribute = ignore_attribute or config.ignore_attribute; ignore = ignore or []",
                    json_value=None if dd is None else list(dd)))

    hc = _handler_call_args(dump) if dump is not None else None
    out.append(Fact("handlerCallArgs", "List String", None if hc is None else lean_list(lean_str(x) for x in hc), ["C20"],
                    "jsonclass.dump: the arguments of the serializer(...) call", json_value=hc))

    nc = _names_consulted(dump) if dump is not None else None
    out.append(Fact("attributeNamesConsulted", "List String", None if not nc else lean_list(lean_str(x) for x in nc), ["C20"],
                    "jsonclass.dump: the attribute-name arguments of the hasattr/getattr calls on obj, as a sorted set",
                    json_value=nc))

    sf = _serial_ignore_filter(dump) if dump is not None else None
    out.append(Fact("serialIgnoreFilter", "Bool", None if sf is None else lean_bool(sf), ["C20"],
                    "jsonclass.dump, `if hasattr(obj, serialize_method):` branch: ignore_list = getattr(obj, ignore_attribute, []) "
                    "+ ignore and the attributes returned by the method are emitted only through a comprehension over "
                    "attrs.items() filtered by `key not in ignore_list`", json_value=sf))

    cs = _config_call_sites(src)
    out.append(Fact("configCallSites", "List (String × String × String × String × String)",
                    None if not cs else lean_list("(%s, %s, %s, %s, %s)" % tuple(lean_str(x) for x in site) for site in cs),
                    ["C08", "C07"],
                    "every call of dump/dumps/load/loads/Fault in jsonrpc.py and SimpleJSONRPCServer.py with the expression it "
                    "passes as config (\"\" = none: the library default, use_jsonclass=True, would apply)",
                    json_value=None if cs is None else [list(x) for x in cs]))

    gd = _gate(NZ.normalised(src, "jsonrpc", "dump"), "dump")
    gl = _gate(NZ.normalised(src, "jsonrpc", "load"), "load")
    out.append(Fact("useJsonclassGates", "Bool × Bool",
                    None if gd is None or gl is None else "(%s, %s)" % (lean_bool(gd), lean_bool(gl)), ["C08"],
                    "jsonrpc.dump / jsonrpc.load: every call of jsonclass.dump / jsonclass.load is in the body of `if config.use_jsonclass:`",
                    json_value=None if gd is None or gl is None else [gd, gl]))

    ll = _loads_calls_load(src)
    out.append(Fact("loadsCallsLoad", "Bool", None if ll is None else lean_bool(ll), ["C08"],
                    "jsonrpc.loads returns load(<parsed text>, config)", json_value=ll))
    lr = _loads_returns(src)
    out.append(Fact("loadsReturns", "List (String × String)",
                    None if not lr else lean_list("(%s, %s)" % (lean_str(c), lean_str(v)) for c, v in lr), ["C08"],
                    "every way out of jsonrpc.loads: (conditions on the path, returned expression) — None for the empty text, "
                    "load(jloads(data), config) otherwise; nothing else reads the raw text",
                    json_value=None if lr is None else [list(x) for x in lr]))
    return out
