"""
Facts about how a configuration travels (C08, C20):

* jsonrpclib/config.py — the attributes `Config.__init__` defines and how `Config.copy` fills each of them in the new
  object (C20: the per-request configuration of a JSON-RPC 1.0 request on a 2.0 server is a copy);
* jsonrpclib/jsonclass.py — the order of the two conditions of the field filter of `dump` (C20: a value of an unsupported
  type is never compared with the ignore-list entries);
* jsonrpclib/jsonrpc.py, SimpleJSONRPCServer.py — for every class whose constructor takes a `config`, the attributes of the
  new object that end up bound to it (directly or through the constructor of a base class), and the expression every
  other constructor call / function call of the package passes for a `config` parameter (C08: an entry point that drops
  its configuration works with the default one, whose use_jsonclass is on).
"""
import ast
import os
import sys

from __main__ import Fact, lean_str, lean_list

sys.path.insert(0, os.path.dirname(os.path.abspath(__file__)))
import normalise_jc as NZ  # noqa: E402

PROPERTIES = ["C08", "C20"]
KEEP = ("_find_fields", "_slots_finder")  # see jsonclass.py

MODULES = ("jsonrpc", "SimpleJSONRPCServer")
CONFIG_PARAMS = ("config", "json_config")


def _is_name(n, ident):
    return isinstance(n, ast.Name) and n.id == ident


def _self_attr(n):
    """`self.X` -> "X" """
    if isinstance(n, ast.Attribute) and _is_name(n.value, "self"):
        return n.attr
    return None


def _own_nodes(fn):
    """The nodes of a function body, without descending into nested functions and classes."""
    stack = list(fn.body)
    while stack:
        n = stack.pop()
        yield n
        for c in ast.iter_child_nodes(n):
            if isinstance(c, (ast.FunctionDef, ast.AsyncFunctionDef, ast.ClassDef, ast.Lambda)):
                continue
            stack.append(c)


# ---- Config.__init__ / Config.copy ----------------------------------------------------------------------------------

def _init_stores(init):
    """attribute -> the constructor parameter whose value it receives (or "<new>")."""
    params = [a.arg for a in init.args.args[1:]]
    out = {}
    for n in _own_nodes(init):
        if isinstance(n, ast.Assign) and len(n.targets) == 1:
            attr = _self_attr(n.targets[0])
            if attr is None:
                continue
            v = n.value
            if isinstance(v, ast.BoolOp) and isinstance(v.op, ast.Or) and v.values:
                v = v.values[0]  # `param or {}`
            out[attr] = v.id if isinstance(v, ast.Name) and v.id in params else "<new>"
    return out


def _copied_from_self(e):
    """`self.A.copy()`, `dict(self.A)`, `copy.copy(self.A)` -> "A" """
    if isinstance(e, ast.Call) and not e.keywords:
        f = e.func
        if isinstance(f, ast.Attribute) and f.attr == "copy" and not e.args:
            return _self_attr(f.value)
        if len(e.args) == 1 and (_is_name(f, "dict") or (isinstance(f, ast.Attribute) and f.attr in ("copy",)
                                                          and _is_name(f.value, "copy"))):
            return _self_attr(e.args[0])
    return None


def _source_kind(expr, attr):
    """How the attribute `attr` of the new object relates to the original, given the expression it receives."""
    if _self_attr(expr) == attr:
        return "same"
    if _copied_from_self(expr) == attr:
        return "copied"
    if isinstance(expr, ast.Constant):
        return "default"  # e.g. None for serialize_handlers: the constructor's default applies
    return ast.unparse(expr)


def config_copy(src):
    """(sorted attributes of __init__, [(attribute, kind)] sorted) or (None, None)."""
    init = src.func("config", "Config.__init__")
    cp = NZ.normalised(src, "config", "Config.copy")  # private helpers of the class inlined
    if init is None:
        return None, None
    stores = _init_stores(init)
    fields = sorted(stores)
    if cp is None:
        return fields, None
    params = [a.arg for a in init.args.args[1:]]
    new = None
    kinds = {}
    for st in cp.body:
        if isinstance(st, ast.Expr) and isinstance(st.value, ast.Constant):
            continue
        if isinstance(st, ast.Assign) and len(st.targets) == 1 and isinstance(st.targets[0], ast.Name) \
                and isinstance(st.value, ast.Call) and _is_name(st.value.func, "Config") and new is None:
            new = st.targets[0].id
            given = {}
            for i, a in enumerate(st.value.args):
                if isinstance(a, ast.Starred) or i >= len(params):
                    return fields, None
                given[params[i]] = a
            for k in st.value.keywords:
                if k.arg is None:
                    return fields, None
                given[k.arg] = k.value
            for attr, p in stores.items():
                kinds[attr] = _source_kind(given[p], attr) if p in given else "default"
        elif new is not None and isinstance(st, ast.Assign) and len(st.targets) == 1 \
                and isinstance(st.targets[0], ast.Attribute) and _is_name(st.targets[0].value, new):
            attr = st.targets[0].attr
            kinds[attr] = _source_kind(st.value, attr)
        elif new is not None and isinstance(st, ast.For) and isinstance(st.target, ast.Name) \
                and isinstance(st.iter, (ast.Tuple, ast.List)) and len(st.body) == 1 and not st.orelse:
            # for member in ("a", "b"): setattr(new, member, getattr(self, member))
            b = st.body[0]
            ok = isinstance(b, ast.Expr) and isinstance(b.value, ast.Call) and _is_name(b.value.func, "setattr") \
                and len(b.value.args) == 3 and _is_name(b.value.args[0], new) and _is_name(b.value.args[1], st.target.id)
            g = b.value.args[2] if ok else None
            ok = ok and isinstance(g, ast.Call) and _is_name(g.func, "getattr") and len(g.args) == 2 \
                and _is_name(g.args[0], "self") and _is_name(g.args[1], st.target.id)
            if not ok or not all(isinstance(e, ast.Constant) and isinstance(e.value, str) for e in st.iter.elts):
                return fields, None
            for e in st.iter.elts:
                kinds[e.value] = "same"
        elif isinstance(st, ast.Return):
            if new is None or not _is_name(st.value, new):
                return fields, None
        else:
            return fields, None
    if new is None:
        return fields, None
    return fields, sorted(kinds.items())


# ---- the field filter of jsonclass.dump -----------------------------------------------------------------------------

def _is_known_types(node, single):
    """`known_types`, i.e. SUPPORTED_TYPES + tuple(config.serialize_handlers): by that name, written in place, or
    through a local bound once (whatever it is called)."""
    if _is_name(node, "known_types") and "known_types" not in single:
        return True
    node = NZ.resolve(node, single)
    if not (isinstance(node, ast.BinOp) and isinstance(node.op, ast.Add)):
        return False
    parts = [NZ.resolve(node.left, single), NZ.resolve(node.right, single)]
    return any(_is_name(p, "SUPPORTED_TYPES") for p in parts) and any(
        isinstance(p, ast.Call) and _is_name(p.func, "tuple") and len(p.args) == 1 and isinstance(p.args[0], ast.Attribute)
        and p.args[0].attr == "serialize_handlers" for p in parts)


def field_filter_order(dump):
    """The conditions under which a field value is dumped, in evaluation order, for the loop that reads
    `<value> = getattr(obj, <name>)`: "isinstance-known" for isinstance(<value>, known_types) found true,
    "not-in-ignore" for `<value> in <list>` found false, the source text of anything else (with `not` in front when it
    has to be false).  These are the conditions met on the path from the top of the loop body to the recursive
    `dump(<value>, …)`, whatever the spelling (one `and`, nested `if`s, guard clauses with `continue`, `elif`)."""
    if dump is None:
        return None
    single = NZ.single_assignments(dump)
    for loop in NZ.dfs_own(dump):
        if not isinstance(loop, ast.For):
            continue
        value = None
        for st in loop.body:
            if isinstance(st, ast.Assign) and len(st.targets) == 1 and isinstance(st.targets[0], ast.Name) \
                    and isinstance(st.value, ast.Call) and _is_name(st.value.func, "getattr") and len(st.value.args) == 2 \
                    and _is_name(st.value.args[0], "obj"):
                value = st.targets[0].id
        if value is None:
            continue

        def is_dump_of_value(n):
            return isinstance(n, ast.Call) and _is_name(n.func, "dump") and n.args and _is_name(n.args[0], value)

        try:
            walk = NZ.Walk(loop.body, is_dump_of_value)
        except NZ.TooComplex:
            return None
        if not walk.hits:
            continue

        def describe(e, outcome):
            if isinstance(e, ast.Call) and _is_name(e.func, "isinstance") and len(e.args) == 2 and _is_name(e.args[0], value) \
                    and _is_known_types(e.args[1], single) and outcome:
                return "isinstance-known"
            if isinstance(e, ast.Compare) and len(e.ops) == 1 and isinstance(e.ops[0], ast.In) and _is_name(e.left, value) \
                    and not outcome:
                return "not-in-ignore"
            return ("" if outcome else "not ") + ast.unparse(e)

        paths = [[describe(e, o) for e, o, _ in conds] for conds, _ in walk.hits]
        if len(paths) == 1:
            return paths[0]
        return ["%d paths" % len(paths)] + [" & ".join(p) for p in paths]
    return None


# ---- who receives the configuration -----------------------------------------------------------------------------------

def _classes(src):
    """(module, class name) -> ClassDef, for the top-level classes of the two modules."""
    out = {}
    for mod in MODULES:
        tree = src.module(mod)
        if tree is None:
            return None
        for n in tree.body:
            if isinstance(n, ast.ClassDef):
                out[(mod, n.name)] = n
    return out


def _init_of(cls):
    for n in cls.body:
        if isinstance(n, ast.FunctionDef) and n.name == "__init__":
            return n
    return None


def _config_param(fn, skip_self):
    """(name, positional index among the call arguments) of the configuration parameter of a function, or None."""
    args = [a.arg for a in fn.args.args]
    if skip_self and args:
        args = args[1:]
    for i, a in enumerate(args):
        if a in CONFIG_PARAMS:
            return a, i
    for a in fn.args.kwonlyargs:
        if a.arg in CONFIG_PARAMS:
            return a.arg, None
    return None


def _passed(call, param, drop_first):
    """The expression a call passes for the parameter `param = (name, index)`, "" when it passes none."""
    name, idx = param
    for k in call.keywords:
        if k.arg == name:
            return ast.unparse(k.value)
        if k.arg is None:
            return "**" + ast.unparse(k.value)
    args = call.args[1:] if drop_first else call.args
    if any(isinstance(a, ast.Starred) for a in args):
        return "*"
    if idx is not None and idx < len(args):
        return ast.unparse(args[idx])
    return ""


def _sinks(key, classes, seen=()):
    """The attributes of `self` bound to the `config` parameter by the constructor of the class `key`: `self.A = config`
    in its own body, or through `Base.__init__(self, …, config, …)` / `super().__init__(…)` of a base class of the two
    modules that binds it.  None when the class has no constructor with a configuration parameter."""
    cls = classes.get(key)
    init = _init_of(cls) if cls is not None else None
    if init is None:
        # inherited constructor: the first base of the two modules that has one
        if cls is not None and key not in seen:
            for b in cls.bases:
                for k in classes:
                    if isinstance(b, ast.Name) and k[1] == b.id:
                        r = _sinks(k, classes, seen + (key,))
                        if r is not None:
                            return r
        return None
    param = _config_param(init, True)
    if param is None:
        return None
    out = set()
    for n in _own_nodes(init):
        if isinstance(n, ast.Assign) and _is_name(n.value, param[0]):
            for t in n.targets:
                a = _self_attr(t)
                if a is not None:
                    out.add(a)
        if isinstance(n, ast.Call) and isinstance(n.func, ast.Attribute) and n.func.attr == "__init__" and key not in seen:
            base = n.func.value
            targets = []
            drop_first = True
            if isinstance(base, ast.Name):
                targets = [k for k in classes if k[1] == base.id]
            elif isinstance(base, ast.Call) and _is_name(base.func, "super"):
                drop_first = False
                targets = [k for b in cls.bases if isinstance(b, ast.Name) for k in classes if k[1] == b.id]
            for k in targets[:1]:
                binit = _init_of(classes[k])
                bparam = _config_param(binit, True) if binit is not None else None
                if bparam is not None and _passed(n, bparam, drop_first) == param[0]:
                    out.update(_sinks(k, classes, seen + (key,)) or ())
    return sorted(out)


def config_sinks(src):
    classes = _classes(src)
    if classes is None:
        return None
    out = []
    for key in sorted(classes):
        init = _init_of(classes[key])
        if init is None or _config_param(init, True) is None:
            continue
        out.append((key[0], key[1], ",".join(_sinks(key, classes) or [])))
    return out


COVERED_ELSEWHERE = ("dump", "dumps", "load", "loads", "Fault")  # Generated.configCallSites
CONFIG_POS = {"dump": 6, "dumps": 7, "load": 1, "loads": 1, "Fault": 4}  # position of `config` in their signatures


def _classes_of(trees):
    out = {}
    for mod in MODULES:
        for n in trees[mod].body:
            if isinstance(n, ast.ClassDef):
                out[(mod, n.name)] = n
    return out


def _callee_table(trees):
    """callee name -> ((parameter name, positional index), is a method): the classes (through their constructor, own
    or inherited), methods and functions of the two modules that take a configuration."""
    classes = _classes_of(trees)
    table = {}
    for (mod, name), cls in classes.items():
        init = _init_of(cls)
        if init is None:
            s = None
            for b in cls.bases:
                for k in classes:
                    if isinstance(b, ast.Name) and k[1] == b.id and _init_of(classes[k]) is not None and s is None:
                        s = _init_of(classes[k])
            init = s
        p = _config_param(init, True) if init is not None else None
        if p is not None:
            table[name] = (p, False)
        for n in cls.body:
            if isinstance(n, ast.FunctionDef) and n.name != "__init__":
                static = any(_is_name(d, "staticmethod") for d in n.decorator_list)
                p = _config_param(n, not static)
                if p is not None:
                    table[n.name] = (p, True)
    for mod in MODULES:
        for n in trees[mod].body:
            if isinstance(n, ast.FunctionDef):
                p = _config_param(n, False)
                if p is not None:
                    table[n.name] = (p, False)
    return table


def _handed_over(call, table):
    """The expressions (AST) a call passes as a configuration: to dump/dumps/load/loads/Fault, to a callee of the
    table, or along with a method of the table handed to someone else (pool.enqueue(self._dispatch, …, config))."""
    out = []
    f = call.func
    bare = f.id if isinstance(f, ast.Name) else (f.attr if isinstance(f, ast.Attribute) and _is_name(f.value, "jsonrpclib") else None)
    if bare in CONFIG_POS:
        out.extend(k.value for k in call.keywords if k.arg == "config")
        out.extend(call.args[CONFIG_POS[bare]:CONFIG_POS[bare] + 1])
    name = f.id if isinstance(f, ast.Name) else (f.attr if isinstance(f, ast.Attribute) else None)
    if name in table and name not in COVERED_ELSEWHERE:
        pname, idx = table[name][0]
        out.extend(k.value for k in call.keywords if k.arg == pname)
        if idx is not None:
            out.extend(call.args[idx:idx + 1])
    for i, a in enumerate(call.args):
        an = a.attr if isinstance(a, ast.Attribute) else None
        if an in table and table[an][1] and name not in table:
            idx = table[an][0][1]
            rest = call.args[i + 1:]
            if idx is not None:
                out.extend(rest[idx:idx + 1])
    return out


_TRANSPARENT = {}


def transparent_modules(src):
    """{module: tree} for jsonrpc.py and SimpleJSONRPCServer.py in which the *transparent* private helpers are inlined
    into their callers (normalise_jc) and, once no longer mentioned anywhere, removed.  A helper is transparent when
    it hands one of its own parameters (never reassigned, not `self`) on as a configuration: what it hands on is
    decided by its callers, so its call sites say nothing where they stand — after inlining they are call sites of
    each caller, with the expression that caller provides (nothing, when the caller or the helper drops it).
    Helpers that read the configuration from `self` are units of their own and stay.  None when a module is missing."""
    key = id(src)
    if key in _TRANSPARENT:
        return _TRANSPARENT[key][1]
    trees = dict((mod, src.module(mod)) for mod in MODULES)
    res = None
    if all(t is not None for t in trees.values()):
        table = _callee_table(trees)

        def transparent(owner, fn):
            params = set(a.arg for a in fn.args.posonlyargs + fn.args.args + fn.args.kwonlyargs) - {"self", "cls"}
            params -= set(n.id for n in ast.walk(fn) if isinstance(n, ast.Name) and not isinstance(n.ctx, ast.Load))
            return any(isinstance(m, ast.Name) and m.id in params
                       for n in ast.walk(fn) if isinstance(n, ast.Call)
                       for e in _handed_over(n, table) for m in ast.walk(e))

        res = {}
        for mod in MODULES:
            tree, _ = NZ.inlined_module(src, mod, only=transparent)
            for n in ast.walk(tree):
                if isinstance(n, ast.FunctionDef):
                    NZ.Canon(n).aliases()  # `cfg = self._config` … config=cfg  ->  config=self._config
            res[mod] = tree
    _TRANSPARENT[key] = (src, res)
    return res


def config_passing(src):
    """Every call, in the two modules, of a class or function of the two modules that has a configuration parameter —
    other than the five callees of `configCallSites` and the `Base.__init__` calls summarised by `configSinks`:
    (module, enclosing class, enclosing function, callee, expression passed — "" when none).  Read on
    `transparent_modules` (a private helper that merely forwards a parameter is part of its callers)."""
    trees = transparent_modules(src)
    if trees is None:
        return None
    table = _callee_table(trees)
    out = set()
    for mod in MODULES:
        def visit(node, cls, fn):
            for ch in ast.iter_child_nodes(node):
                if isinstance(ch, ast.ClassDef):
                    visit(ch, cls or ch.name, fn)
                    continue
                if isinstance(ch, ast.FunctionDef):
                    visit(ch, cls, fn or ch.name)
                    continue
                if isinstance(ch, ast.Call):
                    f = ch.func
                    name = f.id if isinstance(f, ast.Name) else (f.attr if isinstance(f, ast.Attribute) else None)
                    if name in table and name not in COVERED_ELSEWHERE:
                        out.add((mod, cls, fn, name, _passed(ch, table[name][0], False)))
                    # a method handed over with its arguments: pool.enqueue(self._dispatch, method, params, config)
                    for i, a in enumerate(ch.args):
                        an = a.attr if isinstance(a, ast.Attribute) else None
                        if an in table and table[an][1] and name not in table:
                            p = table[an][0]
                            rest = ch.args[i + 1:]
                            expr = ast.unparse(rest[p[1]]) if p[1] is not None and p[1] < len(rest) else ""
                            out.add((mod, cls, fn, "&" + an, expr))
                visit(ch, cls, fn)

        visit(trees[mod], "", "")
    return sorted(out)


def facts(src):
    out = []
    fields, kinds = config_copy(src)
    out.append(Fact("configInitFields", "List String", None if fields is None else lean_list(lean_str(x) for x in fields),
                    ["C20"], "config.Config.__init__: the attributes it defines (sorted)", json_value=fields))
    out.append(Fact("configCopyFields", "List (String × String)",
                    None if kinds is None else lean_list("(%s, %s)" % (lean_str(a), lean_str(k)) for a, k in kinds), ["C20"],
                    "config.Config.copy: how each attribute of the new object is filled — \"same\" (the original's attribute of "
                    "the same name, through the constructor parameter stored into it, a direct store or a setattr/getattr loop), "
                    "\"copied\" (self.<attribute>.copy()), \"default\" (nothing passed: the constructor's default), else the "
                    "expression", json_value=None if kinds is None else [list(x) for x in kinds]))
    order = field_filter_order(NZ.normalised(src, "jsonclass", "dump", KEEP))
    out.append(Fact("fieldFilterOrder", "List String", None if not order else lean_list(lean_str(x) for x in order), ["C20"],
                    "jsonclass.dump, field loop: the conditions under which a field value is dumped, in evaluation order",
                    json_value=order))
    sinks = config_sinks(src)
    out.append(Fact("configSinks", "List (String × String × String)",
                    None if not sinks else lean_list("(%s, %s, %s)" % tuple(lean_str(x) for x in s) for s in sinks), ["C08", "C13"],
                    "for every class of jsonrpc.py / SimpleJSONRPCServer.py whose constructor takes a configuration: the "
                    "attributes of the new object bound to it, directly or through the constructor of a base class it is "
                    "forwarded to (\"\" = the configuration is not kept)", json_value=None if sinks is None else [list(x) for x in sinks]))
    calls = config_passing(src)
    out.append(Fact("configPassing", "List (String × String × String × String × String)",
                    None if not calls else lean_list("(%s, %s, %s, %s, %s)" % tuple(lean_str(x) for x in c) for c in calls),
                    ["C08"],
                    "every call of a class / function / method of the two modules that has a configuration parameter (other than "
                    "dump/dumps/load/loads/Fault: configCallSites) with the expression it passes for it (\"\" = none; "
                    "&name = the method handed to a pool with its arguments)",
                    json_value=None if calls is None else [list(x) for x in calls]))
    return out
