"""
Shared normaliser of the thread-pool extractors (tools/extractors/pool.py, tools/extractors/future.py).

The facts of those extractors are statements about control and data flow ("what is read or written under which lock",
"under which conditions is this statement reached", "which stores precede this call", "which exception classes reach
which handler").  They used to be read off one particular statement shape; a behaviour-preserving refactoring (a block
extracted into a private method, `with lock:` spelt acquire()/try/finally, two guard clauses merged into one `or`,
`if a: ... else: raise` turned into early returns, a `return` moved to the `else:` of a try) then made a companion
theorem fail although nothing the fact talks about had changed.  This module gives the extractors a semantic footing:

  1. `ClassView(cls, anchors)`: the methods of a class, normalised.  Calls `self.<helper>(...)` to a method of the same
     class that is not one of the `anchors` (the methods the model has steps for) are INLINED at the call site (parameter
     substitution, renaming of colliding locals, helpers with guard clauses are first brought into single-exit form);
     `X.acquire(); try: B finally: X.release()` becomes `with X: B`; single-assignment local aliases of attributes that
     only `__init__` ever stores (`lock = self.__lock`, `q = self._queue`) are substituted; statements are renumbered in
     program order (the extractors compare positions, and an inlined statement keeps the line of its helper otherwise).
     All of these preserve the behaviour of the method, so a fact computed afterwards is as true of the source as before.
     Nothing else is rewritten: in particular expressions are never re-associated, comparisons never rewritten in place,
     aliases of mutable counters never substituted (the extractor checks staleness itself), and an anchor is never inlined.

  2. `walk(fn)`: a path-sensitive walk of a (normalised) function.  It yields every simple statement and every atomic
     test with its context: the literals `(expression, polarity)` that hold whenever control is there (from enclosing
     `if`s, from guard clauses that terminate - `if c: return` puts `not c` on everything that follows - and from the
     short-circuit operands evaluated before it: in `a or b`, `b` is evaluated under `not a`), whether `with self.__lock`
     is held, the enclosing try parts and loops, and its position.  `and`/`or`/`not` are decomposed where that is exact
     (`a and b` true = both literals; `a or b` false = both negated; otherwise the compound stays one literal).

  3. small helpers on literals: `positive(lit)` (a negated comparison as the complementary comparison), `lit_key`.

What the normaliser deliberately does NOT hide: a test moved out of a lock (the lock state of every test is part of its
context), a changed operator or operand, a statement that lost or gained a dominating condition, reordered dependent
statements (positions are kept), a dropped argument (substitution is by binding, a call that does not bind is not inlined).
"""
import ast
import copy

PROPERTIES = []
_BLOCKS = ("body", "orelse", "finalbody")


def facts(src):
    """tools/extract.py loads every module of this directory as a fact provider: this one provides none."""
    return []


# ---------------------------------------------------------------------------------------------------------------------
# small AST helpers
# ---------------------------------------------------------------------------------------------------------------------

def self_attr(node, selfname="self"):
    """`self.<name>` -> name (class-private names as written, e.g. `__lock`), else None."""
    if isinstance(node, ast.Attribute) and isinstance(node.value, ast.Name) and node.value.id == selfname:
        return node.attr
    return None


def same(a, b):
    return ast.dump(a) == ast.dump(b)


def is_doc(st):
    return isinstance(st, ast.Expr) and isinstance(st.value, ast.Constant) and isinstance(st.value.value, str)


def strip_docstrings(body):
    out = [st for st in body if not is_doc(st)]
    return out or [ast.Pass()]


def sub_blocks(st):
    """The statement lists nested directly in a compound statement (handlers included)."""
    out = []
    for f in _BLOCKS:
        b = getattr(st, f, None)
        if isinstance(b, list) and (not b or isinstance(b[0], ast.stmt)):
            out.append(b)
    for h in getattr(st, "handlers", []) or []:
        out.append(h.body)
    for c in getattr(st, "cases", []) or []:
        out.append(c.body)
    return out


def _term_stmt(s):
    if isinstance(s, (ast.Return, ast.Raise, ast.Continue, ast.Break)):
        return True
    if isinstance(s, ast.If):
        return terminates(s.body) and terminates(s.orelse)
    if isinstance(s, ast.With):
        return terminates(s.body)
    if isinstance(s, ast.Try):
        if s.finalbody and terminates(s.finalbody):
            return True
        main = terminates(s.body) or (bool(s.orelse) and terminates(s.orelse))
        return main and all(terminates(h.body) for h in s.handlers)
    return False


def terminates(block):
    """Control never falls out of the end of this statement list (return / raise / continue / break on every path)."""
    return any(_term_stmt(s) for s in block or [])


def stored_names(node):
    """Local names bound anywhere inside `node` (assignment targets, for targets, with/except `as`, walrus)."""
    out = set()
    for n in ast.walk(node):
        if isinstance(n, ast.Name) and isinstance(n.ctx, (ast.Store, ast.Del)):
            out.add(n.id)
        elif isinstance(n, ast.ExceptHandler) and n.name:
            out.add(n.name)
    return out


def all_names(node):
    out = set()
    for n in ast.walk(node):
        if isinstance(n, ast.Name):
            out.add(n.id)
        elif isinstance(n, ast.arg):
            out.add(n.arg)
        elif isinstance(n, ast.ExceptHandler) and n.name:
            out.add(n.name)
    return out


def _own_returns(block):
    """Return statements of this function body (nested function definitions are somebody else's)."""
    out = []

    def visit(n):
        if isinstance(n, (ast.FunctionDef, ast.AsyncFunctionDef, ast.Lambda, ast.ClassDef)):
            return
        if isinstance(n, ast.Return):
            out.append(n)
        for ch in ast.iter_child_nodes(n):
            visit(ch)
    for s in block:
        visit(s)
    return out


# ---------------------------------------------------------------------------------------------------------------------
# 1a. guard clauses -> nested if/else (used to bring a helper into single-exit form before it is inlined)
# ---------------------------------------------------------------------------------------------------------------------

def nest_guards(block):
    """`if c: <terminates>; REST`  ->  `if c: <terminates> else: REST` (and the mirror image), recursively.
    Valid whenever the branch never falls through; brings early returns into tail position."""
    block = list(block)
    for i, st in enumerate(block):
        if isinstance(st, ast.If) and i < len(block) - 1:
            rest = block[i + 1:]
            if terminates(st.body) and not terminates(st.orelse):
                st.orelse = list(st.orelse) + rest
                block = block[:i + 1]
                break
            if st.orelse and terminates(st.orelse) and not terminates(st.body):
                st.body = list(st.body) + rest
                block = block[:i + 1]
                break
    for st in block:
        if isinstance(st, ast.If):
            st.body = nest_guards(st.body)
            st.orelse = nest_guards(st.orelse)
        elif isinstance(st, ast.With):
            st.body = nest_guards(st.body)
        elif isinstance(st, ast.Try):
            st.body = nest_guards(st.body)
            st.orelse = nest_guards(st.orelse)
            for h in st.handlers:
                h.body = nest_guards(h.body)
    return block


def _tail_returns(block, out):
    """Return statements in tail position: executing them is the last thing the function does (apart from leaving
    `with` blocks and running `finally` clauses, which an assignment in their place goes through just the same)."""
    if not block:
        return
    s = block[-1]
    if isinstance(s, ast.Return):
        out.append(s)
    elif isinstance(s, ast.If):
        _tail_returns(s.body, out)
        _tail_returns(s.orelse, out)
    elif isinstance(s, ast.With):
        _tail_returns(s.body, out)
    elif isinstance(s, ast.Try):
        if s.orelse:
            _tail_returns(s.orelse, out)    # a return at the end of the body would skip the else clause: not a tail
        else:
            _tail_returns(s.body, out)
        for h in s.handlers:
            _tail_returns(h.body, out)


# ---------------------------------------------------------------------------------------------------------------------
# 1b. inlining of private helpers
# ---------------------------------------------------------------------------------------------------------------------

class _Subst(ast.NodeTransformer):
    """Renames locals and substitutes parameters (loads only) in a helper body."""

    def __init__(self, rename, subst):
        self.rename, self.subst = rename, subst

    def visit_Name(self, node):
        if isinstance(node.ctx, ast.Load) and node.id in self.subst:
            return copy.deepcopy(self.subst[node.id])
        if node.id in self.rename:
            return ast.copy_location(ast.Name(id=self.rename[node.id], ctx=node.ctx), node)
        return node

    def visit_ExceptHandler(self, node):
        self.generic_visit(node)
        if node.name in self.rename:
            node.name = self.rename[node.name]
        return node

    def visit_FunctionDef(self, node):      # nested definitions: left alone
        return node

    visit_Lambda = visit_FunctionDef


def _simple_arg(a):
    return isinstance(a, (ast.Name, ast.Constant))


class Inliner(object):
    """Inlines calls `self.<h>(...)` (methods: `kind="method"`) or `<h>(...)` (module functions) to the given helpers."""

    def __init__(self, helpers, selfname="self", module_helpers=None):
        self.helpers = helpers                      # name -> FunctionDef (methods of the class)
        self.module_helpers = module_helpers or {}  # name -> FunctionDef (private module-level functions)
        self.selfname = selfname
        self.used = set()       # helpers inlined at least once
        self.failed = set()     # helpers with a call site that could not be inlined
        self._tmp = 0

    # -- which helper does a call refer to --------------------------------------------------------------------
    def _target(self, call):
        if not isinstance(call, ast.Call):
            return None
        f = call.func
        if isinstance(f, ast.Attribute) and isinstance(f.value, ast.Name) and f.value.id == self.selfname \
                and f.attr in self.helpers:
            return ("method", f.attr)
        if isinstance(f, ast.Name) and f.id in self.module_helpers:
            return ("function", f.id)
        return None

    def _bind(self, fn, call, kind):
        """{parameter: argument expression} or None."""
        a = fn.args
        if a.vararg or a.kwarg or a.kwonlyargs:
            return None
        if any(isinstance(x, ast.Starred) for x in call.args) or any(k.arg is None for k in call.keywords):
            return None
        params = [p.arg for p in list(a.posonlyargs) + list(a.args)]
        if kind == "method":
            if not params:
                return None
            params = params[1:]
        if len(call.args) > len(params):
            return None
        bound = dict(zip(params, call.args))
        for k in call.keywords:
            if k.arg not in params or k.arg in bound:
                return None
            bound[k.arg] = k.value
        defaults = dict(zip(params[len(params) - len(a.defaults):], a.defaults)) if a.defaults else {}
        for p in params:
            if p not in bound:
                if p not in defaults:
                    return None
                bound[p] = defaults[p]
        return params, bound

    # -- one call site ------------------------------------------------------------------------------------------------
    def inline_call(self, call, mode, target, names, stack):
        """Statements equivalent to `<call>` (mode expr), `target = <call>` (assign) or `return <call>` (return),
        or None when this call cannot be inlined."""
        kind, name = self._target(call)
        if name in stack:
            return None
        fn = self.helpers[name] if kind == "method" else self.module_helpers[name]
        if fn.decorator_list or isinstance(fn, ast.AsyncFunctionDef):
            return None
        b = self._bind(fn, call, kind)
        if b is None:
            return None
        params, bound = b
        fn = copy.deepcopy(fn)
        for n in ast.walk(fn):
            if isinstance(n, (ast.Yield, ast.YieldFrom, ast.Await, ast.Global, ast.Nonlocal)):
                return None
        body = strip_docstrings(fn.body)
        if not terminates(body) and mode != "expr":
            # falling off the end returns None (as a bare statement there is nothing to hand back: left as it is, so
            # that an early `return` inside a `with` / `if` of the helper is still the last thing it does)
            body = body + [ast.Return(value=ast.Constant(value=None))]
        body = nest_guards(body)
        if mode != "return":
            tails = []
            _tail_returns(body, tails)
            if set(map(id, _own_returns(body))) != set(map(id, tails)):
                return None     # a return inside a loop / before an else clause: not expressible without it
            for r in tails:
                r._tail = True
        # parameters: substituted when the argument is a name or a constant and the helper never rebinds the parameter,
        # bound to a local otherwise
        assigned = stored_names(ast.Module(body=body, type_ignores=[]))
        subst, pre = {}, []
        own_self = (list(fn.args.posonlyargs) + list(fn.args.args))[0].arg if kind == "method" else None
        if own_self is not None:
            if own_self in assigned:
                return None
            subst[own_self] = ast.Name(id=self.selfname, ctx=ast.Load())
        local_params = []
        for p in params:
            if p not in assigned and _simple_arg(bound[p]):
                subst[p] = bound[p]
            else:
                local_params.append(p)
        rename = {}
        for l in sorted(assigned | set(local_params)):
            if l in names:
                k, new = 0, "%s__%s" % (l, name.strip("_"))
                while new in names:
                    k += 1
                    new = "%s__%s%d" % (l, name.strip("_"), k)
                rename[l] = new
            names.add(rename.get(l, l))
        for p in local_params:
            pre.append(ast.Assign(targets=[ast.Name(id=rename.get(p, p), ctx=ast.Store())], value=copy.deepcopy(bound[p])))
        tr = _Subst(rename, subst)
        body = [tr.visit(s) for s in body]
        # what a return becomes
        if mode != "return":
            body = self._replace_tail_returns(body, mode, target)
        body = pre + body
        # calls of further helpers inside the inlined text
        body = self.inline_block(body, names, stack + [name])
        for s in body:
            for n in ast.walk(s):
                if not hasattr(n, "lineno"):
                    n.lineno = getattr(call, "lineno", 0)
                    n.col_offset = 0
                    n.end_lineno = n.lineno
                    n.end_col_offset = 0
            s.inlined_from = name
        self.used.add(name)
        return body

    def _replace_tail_returns(self, block, mode, target):
        out = []
        for s in block:
            if isinstance(s, ast.Return) and getattr(s, "_tail", False):
                v = s.value if s.value is not None else ast.Constant(value=None)
                if mode == "assign":
                    out.append(ast.copy_location(ast.Assign(targets=[copy.deepcopy(target)], value=v), s))
                elif not isinstance(v, (ast.Constant, ast.Name, ast.Attribute)):
                    out.append(ast.copy_location(ast.Expr(value=v), s))
                continue
            for blk in sub_blocks(s):
                if blk:
                    blk[:] = self._replace_tail_returns(blk, mode, target) or [ast.copy_location(ast.Pass(), s)]
            out.append(s)
        return out

    # -- expression helpers: `def h(self, a): return <expr>` used inside a larger expression ---------------------------
    def _inline_expressions(self, st, names, stack):
        me = self

        class T(ast.NodeTransformer):
            def visit_Call(self, node):
                self.generic_visit(node)
                t = me._target(node)
                if t is None or t[1] in stack:
                    return node
                kind, name = t
                fn = me.helpers[name] if kind == "method" else me.module_helpers[name]
                if fn.decorator_list:
                    return node
                body = strip_docstrings(fn.body)
                if len(body) != 1 or not isinstance(body[0], ast.Return) or body[0].value is None:
                    return node
                b = me._bind(fn, node, kind)
                if b is None:
                    return node
                params, bound = b
                if not all(_simple_arg(bound[p]) or self_attr(bound[p], me.selfname) for p in params):
                    return node
                subst = dict((p, bound[p]) for p in params)
                if kind == "method":
                    subst[(list(fn.args.posonlyargs) + list(fn.args.args))[0].arg] = ast.Name(id=me.selfname, ctx=ast.Load())
                expr = _Subst({}, subst).visit(copy.deepcopy(body[0].value))
                for n in ast.walk(expr):
                    ast.copy_location(n, node)
                me.used.add(name)
                # helpers called by the helper
                holder = ast.Expr(value=expr)
                me._inline_expressions(holder, names, stack + [name])
                return holder.value

        for field, value in ast.iter_fields(st):
            if field in _BLOCKS or field in ("handlers", "cases"):
                continue
            if isinstance(value, ast.AST):
                setattr(st, field, T().visit(value))
            elif isinstance(value, list):
                setattr(st, field, [T().visit(v) if isinstance(v, ast.AST) else v for v in value])

    # -- a statement list ---------------------------------------------------------------------------------------
    def inline_block(self, block, names, stack=()):
        stack = list(stack)
        out = []
        for st in block:
            if isinstance(st, (ast.FunctionDef, ast.AsyncFunctionDef, ast.ClassDef)):
                out.append(st)
                continue
            self._inline_expressions(st, names, stack)
            repl = None
            if isinstance(st, ast.Expr) and self._target(st.value):
                repl = self.inline_call(st.value, "expr", None, names, stack)
                if repl is not None and not repl:
                    repl = [ast.copy_location(ast.Pass(), st)]
            elif isinstance(st, ast.Assign) and len(st.targets) == 1 and isinstance(st.targets[0], ast.Name) \
                    and self._target(st.value):
                repl = self.inline_call(st.value, "assign", st.targets[0], names, stack)
            elif isinstance(st, ast.Return) and st.value is not None and self._target(st.value):
                repl = self.inline_call(st.value, "return", None, names, stack)
            elif isinstance(st, ast.If):
                t, neg = st.test, False
                if isinstance(t, ast.UnaryOp) and isinstance(t.op, ast.Not):
                    t, neg = t.operand, True
                if self._target(t):
                    self._tmp += 1
                    tmp = "%s__result%d" % (self._target(t)[1].strip("_"), self._tmp)
                    while tmp in names:
                        tmp += "_"
                    names.add(tmp)
                    pre = self.inline_call(t, "assign", ast.Name(id=tmp, ctx=ast.Store()), names, stack)
                    if pre is not None:
                        new_test = ast.copy_location(ast.Name(id=tmp, ctx=ast.Load()), t)
                        st.test = ast.copy_location(ast.UnaryOp(op=ast.Not(), operand=new_test), t) if neg else new_test
                        out.extend(pre)
            if repl is not None:
                out.extend(repl)
                continue
            for n in ast.walk(st) if not sub_blocks(st) else self._header_nodes(st):
                t = self._target(n)
                if t is not None:
                    self.failed.add(t[1])       # a call we could not inline (inside an expression, a loop test, ...)
            for blk in sub_blocks(st):
                blk[:] = self.inline_block(blk, names, stack)
            out.append(st)
        return out

    @staticmethod
    def _header_nodes(st):
        for field, value in ast.iter_fields(st):
            if field in _BLOCKS or field in ("handlers", "cases"):
                continue
            vs = value if isinstance(value, list) else [value]
            for v in vs:
                if isinstance(v, ast.AST):
                    for n in ast.walk(v):
                        yield n


# ---------------------------------------------------------------------------------------------------------------------
# 1c. acquire / try / finally release  ->  with
# ---------------------------------------------------------------------------------------------------------------------

def _method_call_on(st, method):
    """`<X>.<method>()` as an expression statement -> X."""
    if isinstance(st, ast.Expr) and isinstance(st.value, ast.Call) and isinstance(st.value.func, ast.Attribute) \
            and st.value.func.attr == method and not st.value.keywords:
        args = st.value.args
        if not args or (method == "acquire" and len(args) == 1 and isinstance(args[0], ast.Constant) and args[0].value is True):
            return st.value.func.value
    return None


def canon_locks(block):
    """`X.acquire()` immediately followed by `try: BODY finally: X.release()` (no handlers, no else) -> `with X: BODY`.
    That is what the with statement of a lock does; anything between the two statements, an argument to acquire(), a
    second statement in the finally clause and the pattern is left alone."""
    out, i = [], 0
    while i < len(block):
        st = block[i]
        x = _method_call_on(st, "acquire")
        if x is not None and i + 1 < len(block) and isinstance(block[i + 1], ast.Try):
            t = block[i + 1]
            if not t.handlers and not t.orelse and len(t.finalbody) == 1:
                y = _method_call_on(t.finalbody[0], "release")
                if y is not None and same(x, y):
                    w = ast.With(items=[ast.withitem(context_expr=x, optional_vars=None)], body=canon_locks(t.body))
                    ast.copy_location(w, st)
                    w.canonicalised = "acquire/try/finally"
                    out.append(w)
                    i += 2
                    continue
        for blk in sub_blocks(st):
            blk[:] = canon_locks(blk)
        out.append(st)
        i += 1
    return out


# ---------------------------------------------------------------------------------------------------------------------
# 1d. aliases of attributes that only __init__ stores
# ---------------------------------------------------------------------------------------------------------------------

def stable_attributes(cls, selfname="self"):
    """Attributes of self that are bound in `__init__` and nowhere else in the class (the lock, the queue, the logger,
    the stop event, the thread list object): a local alias of one of them is the same object for the whole call."""
    stored_in = {}
    for fn in cls.body:
        if not isinstance(fn, ast.FunctionDef):
            continue
        for n in ast.walk(fn):
            if isinstance(n, ast.Attribute) and isinstance(n.ctx, (ast.Store, ast.Del)) and self_attr(n, selfname):
                stored_in.setdefault(n.attr, set()).add(fn.name)
    return set(a for a, fs in stored_in.items() if fs == {"__init__"})


def binding_counts(fn):
    counts = {}
    for n in ast.walk(fn):
        if isinstance(n, ast.Name) and isinstance(n.ctx, (ast.Store, ast.Del)):
            counts[n.id] = counts.get(n.id, 0) + 1
        elif isinstance(n, ast.ExceptHandler) and n.name:
            counts[n.name] = counts.get(n.name, 0) + 1
    return counts


def substitute_stable_aliases(fn, stable, selfname="self"):
    """`q = self._queue` (bound once, `_queue` only ever stored by __init__) : every later `q` reads `self._queue`."""
    if fn.name == "__init__":
        return fn
    params = set(a.arg for a in list(fn.args.posonlyargs) + list(fn.args.args) + list(fn.args.kwonlyargs))
    counts = binding_counts(fn)
    alias = {}

    def find(block):
        for st in block:
            if isinstance(st, ast.Assign) and len(st.targets) == 1 and isinstance(st.targets[0], ast.Name):
                a = self_attr(st.value, selfname)
                nm = st.targets[0].id
                if a in stable and counts.get(nm) == 1 and nm not in params:
                    alias[nm] = st
            for blk in sub_blocks(st):
                find(blk)
    find(fn.body)
    if not alias:
        return fn

    class T(ast.NodeTransformer):
        def visit_Name(self, node):
            if isinstance(node.ctx, ast.Load) and node.id in alias:
                return ast.copy_location(copy.deepcopy(alias[node.id].value), node)
            return node

    def drop(block):
        out = []
        for st in block:
            if any(st is a for a in alias.values()):
                continue
            for blk in sub_blocks(st):
                if blk:
                    blk[:] = drop(blk) or [ast.copy_location(ast.Pass(), st)]
            out.append(st)
        return out
    fn.body = drop(fn.body) or [ast.Pass()]
    T().visit(fn)
    return fn


# ---------------------------------------------------------------------------------------------------------------------
# 1e. positions
# ---------------------------------------------------------------------------------------------------------------------

def renumber(fn):
    """Statement k of the normalised method (pre-order, program text order) gets `lineno = k`, and so do the expressions
    that belong to it; the line of the source is kept in `src_lineno`.  Positions of inlined statements are then
    comparable with those of their caller."""
    counter = [0]

    def number_expr(n, k):
        for m in ast.walk(n):
            if hasattr(m, "lineno") or isinstance(m, (ast.expr, ast.stmt)):
                if not hasattr(m, "src_lineno"):
                    m.src_lineno = getattr(m, "lineno", 0)
                m.lineno = k

    def visit_block(block):
        for st in block:
            counter[0] += 1
            k = counter[0]
            st.src_lineno = getattr(st, "src_lineno", getattr(st, "lineno", 0))
            st.lineno = k
            for field, value in ast.iter_fields(st):
                if field in _BLOCKS or field in ("handlers", "cases"):
                    continue
                vs = value if isinstance(value, list) else [value]
                for v in vs:
                    if isinstance(v, ast.AST):
                        number_expr(v, k)
            # blocks in execution order: body, handlers, orelse, finalbody
            if isinstance(st, ast.Try):
                visit_block(st.body)
                for h in st.handlers:
                    counter[0] += 1
                    h.src_lineno = getattr(h, "src_lineno", getattr(h, "lineno", 0))
                    h.lineno = counter[0]
                    if h.type is not None:
                        number_expr(h.type, counter[0])
                    visit_block(h.body)
                visit_block(st.orelse)
                visit_block(st.finalbody)
            else:
                for blk in sub_blocks(st):
                    visit_block(blk)
    visit_block(fn.body)
    return fn


def src_line(node):
    return getattr(node, "src_lineno", getattr(node, "lineno", 0))


# ---------------------------------------------------------------------------------------------------------------------
# 1. the normalised class
# ---------------------------------------------------------------------------------------------------------------------

class ClassView(object):
    """
    `methods`: name -> normalised FunctionDef, in source order, for every method of the class except the private helpers
    that were inlined at every one of their call sites (their text is analysed where it executes, in the caller).
    `inlined`: names of those helpers.  `raw`: the untouched definitions.
    """

    def __init__(self, cls, anchors, module=None, selfname="self"):
        self.cls = cls
        self.anchors = set(anchors)
        self.raw = {}
        for n in cls.body:
            if isinstance(n, ast.FunctionDef):
                self.raw[n.name] = n
        called = set()
        for n in ast.walk(cls):
            if isinstance(n, ast.Call) and isinstance(n.func, ast.Attribute) and isinstance(n.func.value, ast.Name) \
                    and n.func.value.id == selfname:
                called.add(n.func.attr)
        helpers = dict((k, f) for k, f in self.raw.items()
                       if k not in self.anchors and k in called and not f.decorator_list
                       and not (k.startswith("__") and k.endswith("__")))
        module_helpers = {}
        if module is not None:
            for n in module.body:
                if isinstance(n, ast.FunctionDef) and n.name.startswith("_") and not n.decorator_list:
                    module_helpers[n.name] = n
        self.stable = stable_attributes(cls, selfname)
        self._inliner = Inliner(helpers, selfname, module_helpers)
        self.methods = {}
        order = [k for k in self.raw if k not in helpers]
        for k in order:
            self.methods[k] = self._normalise(self.raw[k], selfname)
        # helpers that are still needed as methods of their own: never inlined, or not at every call site
        changed = True
        while changed:
            changed = False
            for k in helpers:
                if k not in self.methods and (k not in self._inliner.used or k in self._inliner.failed):
                    self.methods[k] = self._normalise(self.raw[k], selfname)
                    changed = True
        # a helper with a public name can also be called from outside the class, where nothing the caller holds
        # protects it: it is inlined where the class calls it AND stays a method of its own in the tables
        for k in helpers:
            if k not in self.methods and not k.startswith("_"):
                self.methods[k] = self._normalise(self.raw[k], selfname)
        self.inlined = set(k for k in helpers if k not in self.methods)
        # keep source order
        self.methods = dict((k, self.methods[k]) for k in self.raw if k in self.methods)

    def _normalise(self, fn, selfname):
        fn = copy.deepcopy(fn)
        own_self = fn.args.args[0].arg if fn.args.args else selfname
        if own_self != selfname:
            return renumber(fn)     # an unusual receiver name: analysed as written
        fn.body = strip_docstrings(fn.body)
        names = all_names(fn)
        fn.body = self._inliner.inline_block(fn.body, names, [fn.name])
        fn.body = canon_locks(fn.body)
        fn = substitute_stable_aliases(fn, self.stable, selfname)
        ast.fix_missing_locations(fn)
        return renumber(fn)

    def method(self, name):
        return self.methods.get(name)


def normalised_methods(cls, anchors, module=None):
    """name -> FunctionDef of `cls` through `ClassView`; the definitions as written should the normaliser fail on
    some construct it does not expect (the facts are then read off the source shape, as they used to be)."""
    if cls is None:
        return {}
    try:
        return ClassView(cls, anchors, module=module).methods
    except Exception:  # noqa: BLE001  a fact provider must never take the extraction down
        return dict((n.name, n) for n in cls.body if isinstance(n, ast.FunctionDef))


# ---------------------------------------------------------------------------------------------------------------------
# 2. the path-sensitive walk
# ---------------------------------------------------------------------------------------------------------------------

class Lit(tuple):
    """`(expression, polarity)` plus where the knowledge comes from: `origin` is
         ("if", statement)                  the statement is inside that branch of the if
         ("guard", statement, exits)        an earlier `if` of the same block whose other branch never falls through;
                                            exits: how that branch leaves, a subset of return/raise/continue/break
                                            (also: inside a branch of an `if` whose alternative only ever raises)
         ("operand", boolop)                an earlier operand of the same short-circuit expression"""

    def __new__(cls, expr, pol, origin=None):
        self = tuple.__new__(cls, (expr, pol))
        self.origin = origin
        return self

    @property
    def is_validation(self):
        """From a guard clause that only ever raises (argument validation: the model has an error outcome for it)."""
        return bool(self.origin) and self.origin[0] == "guard" and self.origin[2] == {"raise"}


def exit_kinds(block):
    """How control leaves a block that never falls through."""
    out = set()
    for s in block or []:
        if isinstance(s, ast.Return):
            out.add("return")
        elif isinstance(s, ast.Raise):
            out.add("raise")
        elif isinstance(s, ast.Continue):
            out.add("continue")
        elif isinstance(s, ast.Break):
            out.add("break")
        elif not isinstance(s, (ast.FunctionDef, ast.AsyncFunctionDef, ast.ClassDef, ast.For, ast.While)):
            for blk in sub_blocks(s):
                out |= exit_kinds(blk)
    return out


def decompose(test, pol, origin=None):
    """Literals `(expr, polarity)` that all hold when `test` evaluates to `pol`, as far as that is a conjunction."""
    if isinstance(test, ast.UnaryOp) and isinstance(test.op, ast.Not):
        return decompose(test.operand, not pol, origin)
    if isinstance(test, ast.BoolOp):
        if (isinstance(test.op, ast.And) and pol) or (isinstance(test.op, ast.Or) and not pol):
            out = []
            for v in test.values:
                out.extend(decompose(v, pol, origin))
            return out
    return [Lit(test, pol, origin)]


_FLIP = {ast.Is: ast.IsNot, ast.IsNot: ast.Is, ast.In: ast.NotIn, ast.NotIn: ast.In, ast.Eq: ast.NotEq, ast.NotEq: ast.Eq,
         ast.Lt: ast.GtE, ast.GtE: ast.Lt, ast.Gt: ast.LtE, ast.LtE: ast.Gt}


def positive(lit, ordering=True):
    """A literal with polarity False whose test is a single comparison, as the complementary comparison with polarity
    True (`not (a is None)` = `a is not None`; for the ordering operators this is exact on numbers that are not NaN -
    pass ordering=False to leave those alone).  Other literals are returned unchanged."""
    expr, pol = lit
    if not pol and isinstance(expr, ast.Compare) and len(expr.ops) == 1 and type(expr.ops[0]) in _FLIP:
        if ordering or not isinstance(expr.ops[0], (ast.Lt, ast.LtE, ast.Gt, ast.GtE)):
            new = ast.Compare(left=expr.left, ops=[_FLIP[type(expr.ops[0])]()], comparators=expr.comparators)
            ast.copy_location(new, expr)
            new.lineno = getattr(expr, "lineno", 0)
            return Lit(new, True, getattr(lit, "origin", None))
    return lit


def lit_key(lit):
    e, p = positive(lit)
    return ("" if p else "not ") + ast.unparse(e)


class Item(object):
    """One simple statement (`kind == "stmt"`) or one atomic test (`"test"`: operand of an if / while test;
    `"iter"`: the iterable of a for loop; `"with"`: a context expression) together with its context."""

    def __init__(self, kind, node, conds, locked, tries, loops, seq, owner=None):
        self.kind, self.node = kind, node
        self.conds = tuple(conds)       # literals that hold whenever control is here
        self.locked = locked            # inside `with self.<lock>`
        self.tries = tuple(tries)       # enclosing (Try node, part, handler or None); part in body/handler/orelse/finalbody
        self.loops = tuple(loops)       # enclosing loop statements
        self.seq = seq                  # position in the walk
        self.owner = owner              # the compound statement a test belongs to

    def keys(self):
        return [lit_key(c) for c in self.conds]

    def __repr__(self):     # pragma: no cover
        return "<%s %s | %s | locked=%s>" % (self.kind, ast.unparse(self.node)[:60], " & ".join(self.keys()), self.locked)


def walk(fn, lock_attrs=("__lock",), selfname="self"):
    """Items of a function in program order, see `Item`."""
    items = []

    def is_lock(expr):
        return self_attr(expr, selfname) in lock_attrs

    def emit(kind, node, conds, locked, tries, loops, owner=None):
        items.append(Item(kind, node, conds, locked, tries, loops, len(items), owner))

    def tests(expr, conds, locked, tries, loops, owner):
        """The operands of a test, each with what is known when it is evaluated (short-circuit)."""
        if isinstance(expr, ast.UnaryOp) and isinstance(expr.op, ast.Not):
            tests(expr.operand, conds, locked, tries, loops, owner)
            return
        if isinstance(expr, ast.BoolOp):
            known = list(conds)
            for v in expr.values:
                tests(v, known, locked, tries, loops, owner)
                known = known + decompose(v, isinstance(expr.op, ast.And), ("operand", expr))
            return
        emit("test", expr, conds, locked, tries, loops, owner)

    def block(stmts, conds, locked, tries, loops):
        conds = list(conds)
        for pos, st in enumerate(stmts):
            if isinstance(st, ast.If):
                tests(st.test, conds, locked, tries, loops, st)
                # a branch whose ALTERNATIVE only ever raises is what a guard clause would have left: `if ok: work; return`
                # followed by `raise` (or `else: raise`) is the positive spelling of `if not ok: raise`, and the literal
                # is argument validation all the same (the alternative of the body is the else branch, or - when the body
                # never falls through - the rest of the block)
                def only_raises(blk):
                    return bool(blk) and terminates(blk) and exit_kinds(blk) == {"raise"}
                alt_body = st.orelse if st.orelse else (stmts[pos + 1:] if terminates(st.body) else [])
                o_body = ("guard", st, {"raise"}) if only_raises(alt_body) else ("if", st)
                o_else = ("guard", st, {"raise"}) if only_raises(st.body) else ("if", st)
                block(st.body, conds + decompose(st.test, True, o_body), locked, tries, loops)
                block(st.orelse, conds + decompose(st.test, False, o_else), locked, tries, loops)
                if terminates(st.body) and not terminates(st.orelse):
                    conds = conds + decompose(st.test, False, ("guard", st, exit_kinds(st.body)))
                elif terminates(st.orelse) and not terminates(st.body):
                    conds = conds + decompose(st.test, True, ("guard", st, exit_kinds(st.orelse)))
            elif isinstance(st, ast.While):
                tests(st.test, conds, locked, tries, loops + [st], st)
                block(st.body, conds, locked, tries, loops + [st])
                block(st.orelse, conds, locked, tries, loops)
            elif isinstance(st, (ast.For, ast.AsyncFor)):
                emit("iter", st.iter, conds, locked, tries, loops, st)
                block(st.body, conds, locked, tries, loops + [st])
                block(st.orelse, conds, locked, tries, loops)
            elif isinstance(st, (ast.With, ast.AsyncWith)):
                inner = locked
                for it in st.items:
                    emit("with", it.context_expr, conds, locked, tries, loops, st)
                    if is_lock(it.context_expr):
                        inner = True
                block(st.body, conds, inner, tries, loops)
            elif isinstance(st, ast.Try):
                block(st.body, conds, locked, tries + [(st, "body", None)], loops)
                for h in st.handlers:
                    block(h.body, conds, locked, tries + [(st, "handler", h)], loops)
                block(st.orelse, conds, locked, tries + [(st, "orelse", None)], loops)
                block(st.finalbody, conds, locked, tries + [(st, "finalbody", None)], loops)
            elif isinstance(st, (ast.FunctionDef, ast.AsyncFunctionDef, ast.ClassDef)):
                emit("stmt", st, conds, locked, tries, loops)
            else:
                emit("stmt", st, conds, locked, tries, loops)
    block(fn.body, [], False, [], [])
    return items


def calls_in(node, attr=None, name=None):
    """Call nodes inside `node` of a method `.attr(...)` or a plain function `name(...)`."""
    out = []
    for n in ast.walk(node):
        if isinstance(n, ast.Call):
            if attr is not None and isinstance(n.func, ast.Attribute) and n.func.attr == attr:
                out.append(n)
            elif name is not None and isinstance(n.func, ast.Name) and n.func.id == name:
                out.append(n)
    return out


def handler_classes(h):
    """Names of the classes an except clause catches (`BaseException` for a bare one), as a set."""
    if h.type is None:
        return {"BaseException"}
    ts = h.type.elts if isinstance(h.type, ast.Tuple) else [h.type]
    return set(t.id if isinstance(t, ast.Name) else ast.unparse(t) for t in ts)
