"""
normalise_jc.py — a semantic footing for the extractors jsonclass.py, jsonclass2.py and jsonclass3.py.

The facts of those extractors describe WHAT the code does (which call forwards which argument, which test guards which
call, in which order two conditions are evaluated, what is stored before what), not HOW it is spelt.  This module brings
a function into a normal form before the extractors look at it, and offers a small path-sensitive walk for the facts
that are really statements about control flow.  Nothing here guesses: every rewrite below is an equivalence of Python
semantics (under the stated side conditions, which are checked), and whatever is not recognised is left exactly as
written — so an unusual shape can only make a fact `none`/different (an alarm), never equal by accident.

1. `Scope.inline(fn)` — calls of *private helpers* defined in the same module / class (`_helper(...)`,
   `self._helper(...)`, `self.__helper(...)`, `Class._helper(...)`) are replaced by the helper's body, with the
   parameters substituted by the arguments (simple arguments in place, anything else through a temporary bound first,
   in the order of the call), the helper's locals renamed when they clash, and its `return`s turned into assignments
   of a result variable.  Only helpers that are single-exit after nesting their guard clauses (no `return` inside a
   loop, no generator, no recursion, no *args/**kwargs) are inlined, and only at a call that is evaluated
   unconditionally and before any other call of its statement — or anywhere when the helper is a pure expression of
   its parameters.  A helper that changes what is done (drops an argument, tests something else) therefore changes
   the inlined body in the same way: the facts see the edit as if it had been made in place.

2. `canonical(fn)` — idioms with the same meaning get the same shape:
     * tests are put in negation normal form (`not a in b` → `a not in b`, `not (a and b)` → `not a or not b`, …);
     * `if not x: x = d`, `x = x if x else d`, `x = d if not x else x`            →  `x = x or d`;
     * `if c: <ends in return/raise/continue/break> else: REST`                   →  `if c: …` followed by REST
       (and the mirror image), so an `elif` chain after returns and a sequence of plain `if`s are the same;
     * in a loop body, `if c: continue` followed by REST                          →  `if not c: REST`,
       `if a: (if b: X)` without `else`                                          →  `if a and b: X`;
     * `try: v = E / except K: v = None` followed by `if v is not None: X`, and
       `v = None / try: v = E / except K: pass` followed by `if v is not None: X` →  `try: v = E / except K: pass /
       else: if v is not None: X`   (when `v` is not read anywhere else);
     * `L = []` + `for … : [if c:] L.append(E)`                                   →  `L = [E for … if c]`
       `D = {}` + `for … : [if c:] D[K] = V`                                      →  `D = {K: V for … if c}`
       `for … : [if c:] D[K] = V` on an existing dict                             →  `D.update((K, V) for … if c)`
       (when the loop variables are not used after the loop);
     * `x = A if c else B` → `if c: x = A else: x = B` (likewise `return A if c else B`);
     * a local assigned exactly once to a plain reference (`cfg = self._config`, `name = other`) whose referent is
       not assigned in the function is replaced by that reference.
   Deliberately NOT identified (they are not equivalent in general): `d.get(k)` and `try: d[k] except KeyError`,
   `if x is None: x = d` and `x = x or d`, `not a < b` and `a >= b`, `list(<generator>)` and a list comprehension
   (PEP 479: a StopIteration raised by the element expression — e.g. by a constructor `load` calls — leaves the
   generator as RuntimeError; the correspondence check of C08 finds that difference).  The same corner separates a
   `for` loop filling an EXISTING dict from `d.update(<generator>)`: they are brought to one shape all the same,
   because the facts read from that shape ("only the keys that are not in the ignore list are copied") mean the
   same for both; what the element expressions may raise is the business of the correspondence checks.  `not a == b` is read as `a != b` (the types
   compared by the code at hand are strings).

3. `Walk` — enumerates the paths of a block up to the first statement satisfying a predicate and returns, for each,
   the atomic conditions in evaluation order with their outcome (`a and b` contributes `a` then `b`; a guard clause
   that leaves contributes its negation), each tagged with the `if` it came from.  `if a and b: X`,
   `if a: if b: X`, `if not a: continue / if not b: continue / X` all give the same list for X.
"""
import ast
import copy


def facts(src):
    """tools/extract.py loads every file of this directory as a provider: this one provides no fact of its own."""
    return []


# ---------------------------------------------------------------------------------------------------------------------
# small helpers

def is_name(n, ident=None):
    return isinstance(n, ast.Name) and (ident is None or n.id == ident)


def dfs(node):
    """Pre-order walk in field order (= source order for code that was parsed; stable for code that was rewritten)."""
    yield node
    for c in ast.iter_child_nodes(node):
        for x in dfs(c):
            yield x


def dfs_own(node):
    """Like dfs, without entering nested function / class definitions (the root itself may be one)."""
    yield node
    for c in ast.iter_child_nodes(node):
        if isinstance(c, (ast.FunctionDef, ast.AsyncFunctionDef, ast.ClassDef)):
            continue
        for x in dfs_own(c):
            yield x


def strip_doc(body):
    if body and isinstance(body[0], ast.Expr) and isinstance(body[0].value, ast.Constant) \
            and isinstance(body[0].value.value, str):
        return body[1:]
    return list(body)


def same(a, b):
    return ast.dump(a) == ast.dump(b)


def terminates(stmts):
    """Control never falls off the end of this block."""
    if not stmts:
        return False
    s = stmts[-1]
    if isinstance(s, (ast.Return, ast.Raise, ast.Continue, ast.Break)):
        return True
    if isinstance(s, ast.If):
        return bool(s.orelse) and terminates(s.body) and terminates(s.orelse)
    if isinstance(s, ast.Try):
        if s.finalbody and terminates(s.finalbody):
            return True
        main = terminates(s.orelse) if s.orelse else terminates(s.body)
        return main and all(terminates(h.body) for h in s.handlers)
    if isinstance(s, (ast.With, ast.AsyncWith)):
        return terminates(s.body)
    return False


def _loc(node, like):
    return ast.copy_location(node, like)


# ---------------------------------------------------------------------------------------------------------------------
# tests: negation normal form and atoms

_FLIP = {ast.In: ast.NotIn, ast.NotIn: ast.In, ast.Is: ast.IsNot, ast.IsNot: ast.Is, ast.Eq: ast.NotEq, ast.NotEq: ast.Eq}


def negate(t):
    """The test that holds exactly when `t` does not (as a condition: the truth value is what matters)."""
    if isinstance(t, ast.UnaryOp) and isinstance(t.op, ast.Not):
        return nnf(t.operand)
    if isinstance(t, ast.Compare) and len(t.ops) == 1 and type(t.ops[0]) in _FLIP:
        return _loc(ast.Compare(left=t.left, ops=[_FLIP[type(t.ops[0])]()], comparators=t.comparators), t)
    if isinstance(t, ast.BoolOp):
        op = ast.Or() if isinstance(t.op, ast.And) else ast.And()
        return _loc(ast.BoolOp(op=op, values=[negate(v) for v in t.values]), t)
    if isinstance(t, ast.Constant) and isinstance(t.value, bool):
        return _loc(ast.Constant(value=not t.value), t)
    return _loc(ast.UnaryOp(op=ast.Not(), operand=t), t)


def nnf(t):
    if isinstance(t, ast.UnaryOp) and isinstance(t.op, ast.Not):
        return negate(t.operand)
    if isinstance(t, ast.BoolOp):
        vals = []
        for v in t.values:
            v = nnf(v)
            if isinstance(v, ast.BoolOp) and type(v.op) is type(t.op):
                vals.extend(v.values)
            else:
                vals.append(v)
        return _loc(ast.BoolOp(op=t.op, values=vals), t)
    return t


def atom(t, truth):
    """(positive expression, outcome): `a not in b` being true is `a in b` being false."""
    if isinstance(t, ast.UnaryOp) and isinstance(t.op, ast.Not):
        return atom(t.operand, not truth)
    if isinstance(t, ast.Compare) and len(t.ops) == 1 and isinstance(t.ops[0], (ast.NotIn, ast.IsNot, ast.NotEq)):
        return atom(negate(t), not truth)
    return (t, truth)


def test_paths(t):
    """The ways a test can be evaluated: [([(expr, outcome), …] in evaluation order, value of the test)]."""
    t = nnf(t)
    if isinstance(t, ast.BoolOp):
        is_and = isinstance(t.op, ast.And)
        done = []
        open_ = [[]]
        for i, v in enumerate(t.values):
            nxt = []
            for prefix in open_:
                for atoms, val in test_paths(v):
                    if val == is_and and i + 1 < len(t.values):
                        nxt.append(prefix + atoms)  # goes on with the next operand
                    else:
                        done.append((prefix + atoms, val))
            open_ = nxt
        return done
    return [([atom(t, True)], True), ([atom(t, False)], False)]


# ---------------------------------------------------------------------------------------------------------------------
# 1. inlining of private helpers

class NotSimple(Exception):
    pass


def _contains(node, kinds):
    return any(isinstance(n, kinds) for n in dfs_own(node))


def _block_contains(stmts, kinds):
    return any(_contains(s, kinds) for s in stmts)


def nest_returns(stmts):
    """Guard clauses that return absorb the rest of their block as `else`, so that every `return` ends up in tail
    position.  Raises NotSimple when that is not possible without duplicating code."""
    out = []
    for i, st in enumerate(stmts):
        rest = stmts[i + 1:]
        if isinstance(st, ast.If):
            body = nest_returns(st.body)
            orelse = nest_returns(st.orelse)
            if rest and (_block_contains(body, ast.Return) or _block_contains(orelse, ast.Return)):
                if terminates(body):
                    orelse = nest_returns(list(st.orelse) + rest)
                elif orelse and terminates(orelse):
                    body = nest_returns(list(st.body) + rest)
                else:
                    raise NotSimple("a return in a branch that may also fall through")
                out.append(_loc(ast.If(test=st.test, body=body, orelse=orelse), st))
                return out
            out.append(_loc(ast.If(test=st.test, body=body, orelse=orelse), st))
        elif isinstance(st, (ast.For, ast.AsyncFor, ast.While)):
            if _contains(st, ast.Return):
                raise NotSimple("return inside a loop")
            out.append(st)
        elif isinstance(st, ast.Try):
            if _contains(st, ast.Return):
                if rest:
                    raise NotSimple("return inside a try that is not the last statement")
                if _block_contains(st.finalbody, ast.Return):
                    raise NotSimple("return in finally")
                st = _loc(ast.Try(body=nest_returns(st.body),
                                  handlers=[_loc(ast.ExceptHandler(type=h.type, name=h.name, body=nest_returns(h.body)), h)
                                            for h in st.handlers],
                                  orelse=nest_returns(st.orelse), finalbody=st.finalbody), st)
            out.append(st)
        elif isinstance(st, (ast.With, ast.AsyncWith)):
            if _contains(st, ast.Return):
                if rest:
                    raise NotSimple("return inside a with that is not the last statement")
                st = _loc(type(st)(items=st.items, body=nest_returns(st.body)), st)
            out.append(st)
        elif isinstance(st, ast.Return):
            out.append(st)
            return out  # what follows is unreachable
        else:
            if _contains(st, ast.Return):
                raise NotSimple("return in an unexpected place")
            out.append(st)
    return out


def _single_exit(stmts, ret):
    """Tail `return e` → `ret = e` (ret None: the value is not used, `return e` → `e` as a statement)."""
    if not stmts:
        return []
    head, last = list(stmts[:-1]), stmts[-1]
    if _block_contains(head, ast.Return):
        raise NotSimple("return not in tail position")
    if isinstance(last, ast.Return):
        if ret is None:
            if last.value is None or isinstance(last.value, (ast.Name, ast.Constant)):
                return head
            return head + [_loc(ast.Expr(value=last.value), last)]
        value = last.value if last.value is not None else _loc(ast.Constant(value=None), last)
        return head + [_loc(ast.Assign(targets=[_loc(ast.Name(id=ret, ctx=ast.Store()), last)], value=value), last)]
    if isinstance(last, ast.If):
        return head + [_loc(ast.If(test=last.test, body=_single_exit(last.body, ret) or [_loc(ast.Pass(), last)],
                                   orelse=_single_exit(last.orelse, ret)), last)]
    if isinstance(last, ast.Try):
        if _block_contains(last.finalbody, ast.Return) or (last.orelse and _block_contains(last.body, ast.Return)):
            raise NotSimple("return in try body with else / in finally")
        return head + [_loc(ast.Try(
            body=_single_exit(last.body, ret) if not last.orelse else last.body,
            handlers=[_loc(ast.ExceptHandler(type=h.type, name=h.name, body=_single_exit(h.body, ret) or [_loc(ast.Pass(), h)]), h)
                      for h in last.handlers],
            orelse=_single_exit(last.orelse, ret), finalbody=last.finalbody), last)]
    if isinstance(last, (ast.With, ast.AsyncWith)):
        return head + [_loc(type(last)(items=last.items, body=_single_exit(last.body, ret)), last)]
    if _contains(last, ast.Return):
        raise NotSimple("return not in tail position")
    return head + [last]


def _is_private(name):
    return name.startswith("_") and not (name.startswith("__") and name.endswith("__"))


def _simple_arg(e):
    """An argument that can be written in place of the parameter: evaluating it has no effect and it is cheap."""
    if isinstance(e, (ast.Name, ast.Constant)):
        return True
    if isinstance(e, ast.Attribute):
        return _simple_arg(e.value)
    return False


def _stored_names(fn):
    out = set()
    for n in dfs_own(fn):
        if isinstance(n, ast.Name) and isinstance(n.ctx, (ast.Store, ast.Del)):
            out.add(n.id)
        elif isinstance(n, ast.ExceptHandler) and n.name:
            out.add(n.name)
        elif isinstance(n, (ast.Import, ast.ImportFrom)):
            for a in n.names:
                out.add((a.asname or a.name).split(".")[0])
    return out


def _comp_targets(fn):
    out = set()
    for n in dfs_own(fn):
        if isinstance(n, ast.comprehension):
            for m in ast.walk(n.target):
                if isinstance(m, ast.Name):
                    out.add(m.id)
    return out


class _Subst(ast.NodeTransformer):
    """Name → expression (loads) / Name → new name (loads and stores)."""

    def __init__(self, exprs, renames):
        self.exprs = exprs
        self.renames = renames

    def visit_Name(self, node):
        if node.id in self.renames:
            return _loc(ast.Name(id=self.renames[node.id], ctx=node.ctx), node)
        if node.id in self.exprs and isinstance(node.ctx, ast.Load):
            return copy.deepcopy(self.exprs[node.id])
        return node

    def visit_ExceptHandler(self, node):
        self.generic_visit(node)
        if node.name in self.renames:
            node.name = self.renames[node.name]
        return node


class _Replace(ast.NodeTransformer):
    def __init__(self, old, new):
        self.old = old
        self.new = new

    def visit(self, node):
        if node is self.old:
            return self.new
        return self.generic_visit(node)


def _exec_order_calls(expr):
    """The Call nodes of an expression that are evaluated unconditionally and once, in the order they are executed."""
    out = []

    def visit(n):
        if isinstance(n, ast.Call):
            visit(n.func)
            for a in n.args:
                visit(a)
            for k in n.keywords:
                visit(k.value)
            out.append(n)
        elif isinstance(n, ast.BoolOp):
            visit(n.values[0])
        elif isinstance(n, ast.IfExp):
            visit(n.test)
        elif isinstance(n, (ast.Lambda,)):
            return
        elif isinstance(n, (ast.ListComp, ast.SetComp, ast.DictComp, ast.GeneratorExp)):
            visit(n.generators[0].iter)
        else:
            for c in ast.iter_child_nodes(n):
                visit(c)

    visit(expr)
    return out


def _headers(st):
    """The expressions a statement evaluates itself, once, before any nested block."""
    if isinstance(st, ast.Assign):
        return [st.value]
    if isinstance(st, (ast.AugAssign, ast.AnnAssign)):
        return [st.value] if st.value is not None else []
    if isinstance(st, (ast.Expr, ast.Return)):
        return [st.value] if st.value is not None else []
    if isinstance(st, ast.Raise):
        return [st.exc] if st.exc is not None else []
    if isinstance(st, ast.If):
        return [st.test]
    if isinstance(st, (ast.For, ast.AsyncFor)):
        return [st.iter]
    if isinstance(st, (ast.With, ast.AsyncWith)):
        return [st.items[0].context_expr] if st.items else []
    return []


_BLOCK_FIELDS = ("body", "orelse", "finalbody")


class Scope(object):
    """The functions of one module that may be inlined into their callers."""

    MAX_DEPTH = 4
    MAX_STATEMENTS = 60

    def __init__(self, tree, keep=(), only=None):
        """`keep`: names never inlined; `only(owner class or "", FunctionDef) -> bool`: when given, the helpers
        that may be inlined (the others are units of their own for the fact at hand)."""
        self.tree = tree
        self.keep = set(keep)
        self.only = only
        self.funcs = {}
        self.classes = {}
        for n in (tree.body if tree is not None else []):
            if isinstance(n, ast.FunctionDef):
                self.funcs[n.name] = n
            elif isinstance(n, ast.ClassDef):
                self.classes[n.name] = n
        self.method_owners = {}
        for cname, c in self.classes.items():
            for n in c.body:
                if isinstance(n, ast.FunctionDef):
                    self.method_owners.setdefault(n.name, []).append(cname)
        self.counter = 0
        self.inlined = set()  # (class or "", name) of the helpers that were inlined at least once
        self._cache = {}

    # -- which helper does a call name? -------------------------------------------------------------------------------
    def _method(self, cls, name, seen=()):
        c = self.classes.get(cls)
        if c is None or cls in seen:
            return None
        for n in c.body:
            if isinstance(n, ast.FunctionDef) and n.name == name:
                return (cls, n)
        for b in c.bases:
            if isinstance(b, ast.Name):
                r = self._method(b.id, name, seen + (cls,))
                if r is not None:
                    return r
        return None

    def resolve(self, call, cls):
        """(owner class or "", FunctionDef, receiver expression or None) for a call of a private helper, else None."""
        r = self._resolve(call, cls)
        if r is not None and self.only is not None and not self.only(r[0], r[1]):
            return None
        return r

    def _resolve(self, call, cls):
        f = call.func
        if isinstance(f, ast.Name) and f.id in self.funcs and _is_private(f.id) and f.id not in self.keep:
            return ("", self.funcs[f.id], None)
        if isinstance(f, ast.Attribute) and _is_private(f.attr) and f.attr not in self.keep:
            if is_name(f.value, "self") and cls:
                r = self._method(cls, f.attr)
                # dynamic dispatch: only when no other class of the module defines a method of that name
                if r is not None and len(self.method_owners.get(f.attr, [])) == 1:
                    static = any(is_name(d, "staticmethod") for d in r[1].decorator_list)
                    return (r[0], r[1], None if static else f.value)
            if isinstance(f.value, ast.Name) and f.value.id in self.classes:
                r = self._method(f.value.id, f.attr)
                if r is not None and len(self.method_owners.get(f.attr, [])) == 1:
                    static = any(is_name(d, "staticmethod") for d in r[1].decorator_list)
                    return (r[0], r[1], None) if static else (r[0], r[1], "first-arg")
        return None

    # -- is it simple enough? -------------------------------------------------------------------------------------------
    def prepared(self, owner, fn):
        """The helper's body with its returns nested into tail position, or None when it cannot be inlined."""
        key = (owner, fn.name)
        if key in self._cache:
            return self._cache[key]
        res = None
        try:
            a = fn.args
            if a.vararg or a.kwarg:
                raise NotSimple("*args / **kwargs")
            if any(not (is_name(d, "staticmethod")) for d in fn.decorator_list):
                raise NotSimple("decorated")
            if _contains(fn, (ast.Yield, ast.YieldFrom, ast.Await, ast.Global, ast.Nonlocal)):
                raise NotSimple("generator / global")
            for n in ast.walk(fn):
                if n is not fn and isinstance(n, (ast.FunctionDef, ast.AsyncFunctionDef, ast.ClassDef)):
                    raise NotSimple("nested definition")
                if (isinstance(n, ast.Name) and n.id == fn.name) or (isinstance(n, ast.Attribute) and n.attr == fn.name):
                    raise NotSimple("recursive")
            body = strip_doc(fn.body)
            if sum(1 for s in body for n in dfs_own(s) if isinstance(n, ast.stmt)) > self.MAX_STATEMENTS:
                raise NotSimple("too long")
            body = nest_returns(body)
            _single_exit(body, "_probe_")  # raises NotSimple when a return is not in tail position
            res = body
        except NotSimple:
            res = None
        self._cache[key] = res
        return res

    # -- binding ----------------------------------------------------------------------------------------------------------
    @staticmethod
    def _bind(fn, call, receiver):
        """[(parameter, argument expression)] in the order the arguments are evaluated; None when it cannot be told."""
        a = fn.args
        params = [p.arg for p in a.posonlyargs + a.args]
        defaults = dict(zip(params[len(params) - len(a.defaults):], a.defaults))
        for p, d in zip(a.kwonlyargs, a.kw_defaults):
            if d is not None:
                defaults[p.arg] = d
        args = list(call.args)
        if any(isinstance(x, ast.Starred) for x in args) or any(k.arg is None for k in call.keywords):
            return None
        bound = []
        names = list(params)
        if receiver is not None and receiver != "first-arg":
            if not names:
                return None
            bound.append((names.pop(0), receiver))
        if len(args) > len(names):
            return None
        for p, x in zip(names, args):
            bound.append((p, x))
        rest = names[len(args):] + [p.arg for p in a.kwonlyargs]
        kws = dict((k.arg, k.value) for k in call.keywords)
        if any(k not in rest for k in kws):
            return None
        for k in call.keywords:  # evaluation order of the keyword arguments
            bound.append((k.arg, k.value))
        for p in rest:
            if p not in kws:
                if p not in defaults:
                    return None
                bound.append((p, defaults[p]))
        return bound

    def _fresh(self, base, taken):
        name = base
        while name in taken:
            self.counter += 1
            name = "%s__i%d" % (base, self.counter)
        taken.add(name)
        return name

    def _instantiate(self, owner, fn, body, call, receiver, taken, want_value):
        """(statements to put before the statement of the call, expression standing for the call's value) or None."""
        bound = self._bind(fn, call, receiver)
        if bound is None:
            return None
        stored = _stored_names(fn)
        pre = []
        exprs = {}
        renames = {}
        for p, x in bound:
            uses = sum(1 for s in body for n in dfs_own(s) if is_name(n, p) and isinstance(n.ctx, ast.Load))
            if p not in stored and (_simple_arg(x) or uses == 0 and not _contains(x, ast.Call)):
                exprs[p] = x
            else:
                t = self._fresh(p, taken)
                if t != p:
                    renames[p] = t
                pre.append(_loc(ast.Assign(targets=[_loc(ast.Name(id=t, ctx=ast.Store()), call)], value=x), call))
        params = set(p for p, _ in bound)
        for loc in sorted((stored | _comp_targets(fn)) - params):
            if loc in taken:
                renames[loc] = self._fresh(loc, taken)
            else:
                taken.add(loc)
        ret = self._fresh("_ret_" + fn.name.lstrip("_"), taken) if want_value else None
        try:
            new = _single_exit(body, ret)
        except NotSimple:
            return None
        sub = _Subst(exprs, renames)
        new = [sub.visit(copy.deepcopy(s)) for s in new]
        value = None
        if want_value:
            if not terminates(body):  # may fall off its end: the value is None then
                pre.append(_loc(ast.Assign(targets=[_loc(ast.Name(id=ret, ctx=ast.Store()), call)],
                                           value=_loc(ast.Constant(value=None), call)), call))
            value = _loc(ast.Name(id=ret, ctx=ast.Load()), call)
            # `ret = E` as the last statement: use E itself
            if new and isinstance(new[-1], ast.Assign) and len(new[-1].targets) == 1 and is_name(new[-1].targets[0], ret) \
                    and not any(is_name(n, ret) for s in new[:-1] for n in dfs_own(s)):
                value = new[-1].value
                new = new[:-1]
                pre = [s for s in pre if not (isinstance(s, ast.Assign) and is_name(s.targets[0], ret))]
        self.inlined.add((owner, fn.name))
        return pre + new, value

    @staticmethod
    def _as_expression(stmts, ret):
        """`ret = A` / `if c: ret = A else: ret = B` → A / (A if c else B); None when the block is anything else."""
        if len(stmts) != 1:
            return None
        s = stmts[0]
        if isinstance(s, ast.Assign) and len(s.targets) == 1 and is_name(s.targets[0], ret):
            return s.value
        if isinstance(s, ast.If) and s.orelse:
            a = Scope._as_expression(s.body, ret)
            b = Scope._as_expression(s.orelse, ret)
            if a is not None and b is not None:
                return _loc(ast.IfExp(test=s.test, body=a, orelse=b), s)
        return None

    # -- the transformation ---------------------------------------------------------------------------------------------------
    def inline(self, fn, cls=""):
        """A copy of `fn` in which the calls of simple private helpers are replaced by their bodies."""
        fn = copy.deepcopy(fn)
        taken = set(n.id for n in ast.walk(fn) if isinstance(n, ast.Name))
        taken |= set(a.arg for a in ast.walk(fn) if isinstance(a, ast.arg))
        fn.body = self._block(fn.body, cls, taken, 0, (fn.name,))
        self._expressions(fn, cls, taken, (fn.name,))
        ast.fix_missing_locations(fn)
        return fn

    def _block(self, stmts, cls, taken, depth, stack):
        out = []
        for st in stmts:
            out.extend(self._statement(st, cls, taken, depth, stack))
        return out

    def _statement(self, st, cls, taken, depth, stack):
        if isinstance(st, (ast.FunctionDef, ast.AsyncFunctionDef, ast.ClassDef)):
            return [st]
        for field in _BLOCK_FIELDS:
            block = getattr(st, field, None)
            if isinstance(block, list) and block and isinstance(block[0], ast.stmt):
                setattr(st, field, self._block(block, cls, taken, depth, stack))
        if isinstance(st, ast.Try):
            for h in st.handlers:
                h.body = self._block(h.body, cls, taken, depth, stack)
        if depth >= self.MAX_DEPTH:
            return [st]
        for hx in _headers(st):
            calls = _exec_order_calls(hx)
            for i, c in enumerate(calls):
                r = self.resolve(c, cls)
                if r is None or r[1].name in stack:
                    continue
                owner, helper, receiver = r
                body = self.prepared(owner, helper)
                if body is None:
                    continue
                # every call executed before this one must be one of its own arguments
                inside = set(id(n) for n in ast.walk(c))
                if any(id(p) not in inside for p in calls[:i]):
                    continue
                want = not (isinstance(st, ast.Expr) and st.value is c)
                res = self._instantiate(owner, helper, body, c, receiver, taken, want)
                if res is None:
                    continue
                pre, value = res
                pre = self._block(pre, owner or cls, taken, depth + 1, stack + (helper.name,))
                if want:
                    st = _Replace(c, value).visit(st)
                    return pre + self._statement(st, cls, taken, depth + 1, stack)
                return pre
        return [st]

    def _expressions(self, fn, cls, taken, stack):
        """Calls that could not be hoisted (inside a comprehension, a conditional operand, …): replaced when the
        helper is a pure expression of its parameters."""
        scope = self

        class T(ast.NodeTransformer):
            def visit_Call(self, node):
                self.generic_visit(node)
                r = scope.resolve(node, cls)
                if r is None or r[1].name in stack:
                    return node
                owner, helper, receiver = r
                body = scope.prepared(owner, helper)
                if body is None or _stored_names(helper):
                    return node
                bound = scope._bind(helper, node, receiver)
                if bound is None:
                    return node
                try:
                    e = Scope._as_expression(_single_exit(body, "_r_"), "_r_")
                except NotSimple:
                    return node
                if e is None:
                    return node
                exprs = {}
                for p, x in bound:
                    uses = sum(1 for n in ast.walk(e) if is_name(n, p))
                    if not (_simple_arg(x) or uses <= 1):
                        return node
                    exprs[p] = x
                if _comp_targets(helper) & taken:
                    return node
                scope.inlined.add((owner, helper.name))
                return _Subst(exprs, {}).visit(copy.deepcopy(e))

        for st in fn.body:
            T().visit(st)

    def references(self, name, skip=None):
        """Does the module still mention `name` (outside the definition `skip`)?"""
        def walk(n):
            if n is skip:
                return False
            if (isinstance(n, ast.Name) and n.id == name) or (isinstance(n, ast.Attribute) and n.attr == name):
                return True
            if isinstance(n, ast.alias) and (n.name == name or n.asname == name):
                return True
            return any(walk(c) for c in ast.iter_child_nodes(n))
        return walk(self.tree)


def inlined_module(src, module, keep=(), only=None):
    """A copy of the module in which every function / method has the calls of the simple private helpers of the
    module inlined, and in which a helper that is no longer mentioned anywhere in the package (every use was a call
    that has been inlined) is removed.  -> (tree, Scope) or (None, None)"""
    tree = src.module(module)
    if tree is None:
        return None, None
    scope = Scope(tree, keep, only)
    new = copy.deepcopy(tree)
    new_body = []
    for n in new.body:
        if isinstance(n, ast.FunctionDef):
            n = scope.inline(n, "")
        elif isinstance(n, ast.ClassDef):
            n.body = [scope.inline(m, n.name) if isinstance(m, ast.FunctionDef) else m for m in n.body]
        new_body.append(n)
    new.body = new_body
    # drop the helpers that are fully inlined
    probe = Scope(new)
    for owner, name in sorted(scope.inlined):
        others = any(m != module and _mentions(src.module(m), name) for m in src.trees)
        if others:
            continue
        if owner == "":
            target = next((n for n in new.body if isinstance(n, ast.FunctionDef) and n.name == name), None)
            if target is not None and not probe.references(name, skip=target):
                new.body.remove(target)
        else:
            c = next((n for n in new.body if isinstance(n, ast.ClassDef) and n.name == owner), None)
            target = next((m for m in c.body if isinstance(m, ast.FunctionDef) and m.name == name), None) if c else None
            if target is not None and not probe.references(name, skip=target):
                c.body.remove(target)
    ast.fix_missing_locations(new)
    return new, scope


def _mentions(tree, name):
    if tree is None:
        return False
    for n in ast.walk(tree):
        if (isinstance(n, ast.Name) and n.id == name) or (isinstance(n, ast.Attribute) and n.attr == name) \
                or (isinstance(n, ast.alias) and (n.name == name or n.asname == name)):
            return True
    return False


# ---------------------------------------------------------------------------------------------------------------------
# 2. canonical shapes

def _loads_of(fn, name):
    return [n for n in dfs_own(fn) if is_name(n, name) and isinstance(n.ctx, ast.Load)]


def _names_in(nodes):
    out = set()
    for x in nodes:
        for n in ast.walk(x):
            if isinstance(n, ast.Name):
                out.add(n.id)
    return out


def _is_none(e):
    return isinstance(e, ast.Constant) and e.value is None


def _is_not_none_test(t, v):
    return isinstance(t, ast.Compare) and len(t.ops) == 1 and isinstance(t.ops[0], ast.IsNot) and is_name(t.left, v) \
        and _is_none(t.comparators[0])


def _assign_to_name(st):
    """`name = value` → (name, value)"""
    if isinstance(st, ast.Assign) and len(st.targets) == 1 and isinstance(st.targets[0], ast.Name):
        return st.targets[0].id, st.value
    return None


class Canon(object):
    def __init__(self, fn):
        self.fn = fn

    def _used_outside(self, name, inside, rebinding_ok=False):
        """Is the variable read anywhere in the function outside the given nodes?  With `rebinding_ok`, a read that
        is certainly preceded by another binding of the name (it is the target of an enclosing `for`, or an earlier
        statement of one of the blocks around the read assigns it) does not count."""
        skip = set(id(n) for x in inside for n in ast.walk(x))
        loads = [n for n in _loads_of(self.fn, name) if id(n) not in skip]
        if not rebinding_ok or not loads:
            return bool(loads)
        parent = {}
        for n in dfs_own(self.fn):
            for c in ast.iter_child_nodes(n):
                parent[id(c)] = n
        return any(not self._rebound_before(n, name, parent) for n in loads)

    @staticmethod
    def _binds(st, name):
        if isinstance(st, ast.Assign):
            return any(is_name(x, name) for t in st.targets for x in ast.walk(t) if isinstance(getattr(x, "ctx", None), ast.Store))
        return False

    def _rebound_before(self, node, name, parent):
        child = node
        while id(child) in parent:
            p = parent[id(child)]
            if isinstance(p, (ast.For, ast.AsyncFor)) and any(is_name(x, name) for x in ast.walk(p.target)) \
                    and any(child is s for s in p.body):
                return True
            if isinstance(p, (ast.ListComp, ast.SetComp, ast.DictComp, ast.GeneratorExp)) \
                    and any(is_name(x, name) for g in p.generators for x in ast.walk(g.target)):
                return True  # the comprehension's own variable
            blocks = [getattr(p, f, None) for f in _BLOCK_FIELDS]
            for blk in blocks:
                if isinstance(blk, list) and any(child is s for s in blk):
                    for s in blk:
                        if s is child:
                            break
                        if self._binds(s, name):
                            return True
            child = p
        return False

    # -- expressions -------------------------------------------------------------------------------------------------------
    def _expr_rules(self, st):
        """`x = x if x else d`, `x = d if not x else x` → `x = x or d`; tests of conditional expressions and
        comprehensions in negation normal form."""
        for n in ast.walk(st):
            if isinstance(n, ast.IfExp):
                n.test = nnf(n.test)
            elif isinstance(n, ast.comprehension):
                n.ifs = [nnf(t) for t in n.ifs]
        a = _assign_to_name(st)
        if a is not None and isinstance(a[1], ast.IfExp):
            x, e = a
            t = e.test
            if is_name(t, x) and is_name(e.body, x):
                st.value = _loc(ast.BoolOp(op=ast.Or(), values=[e.body, e.orelse]), e)
            elif isinstance(t, ast.UnaryOp) and isinstance(t.op, ast.Not) and is_name(t.operand, x) and is_name(e.orelse, x):
                st.value = _loc(ast.BoolOp(op=ast.Or(), values=[e.orelse, e.body]), e)
        return st

    # -- blocks ------------------------------------------------------------------------------------------------------------
    def block(self, stmts, tail=False):
        """`tail`: falling off the end of this block is the same as `continue` (the block ends an iteration)."""
        stmts = list(stmts)
        if not stmts:
            return []
        st, rest = stmts[0], stmts[1:]
        last = not rest

        if isinstance(st, ast.If):
            t = nnf(st.test)
            body, orelse = list(st.body), list(st.orelse)
            if tail and body and isinstance(body[-1], ast.Continue) and (orelse or rest or len(body) > 1):
                # `if t: B; continue [else: E]` REST  ==  `if t: B else: E; REST`   (the block ends the iteration)
                new_else = orelse + rest
                if body[:-1]:
                    return self.block([_loc(ast.If(test=t, body=body[:-1], orelse=new_else), st)], tail)
                return self.block([_loc(ast.If(test=negate(t), body=new_else, orelse=[]), st)], tail)
            if orelse and terminates(body):
                return self.block([_loc(ast.If(test=t, body=body, orelse=[]), st)] + orelse + rest, tail)
            if orelse and terminates(orelse):
                return self.block([_loc(ast.If(test=negate(t), body=orelse, orelse=[]), st)] + body + rest, tail)
            b = self.block(body, tail and last) or [_loc(ast.Pass(), st)]
            e = self.block(orelse, tail and last)
            node = _loc(ast.If(test=t, body=b, orelse=e), st)
            # `if not x: x = d` → `x = x or d`
            if not e and len(b) == 1 and isinstance(t, ast.UnaryOp) and isinstance(t.op, ast.Not) and isinstance(t.operand, ast.Name):
                a = _assign_to_name(b[0])
                if a is not None and a[0] == t.operand.id:
                    new = _loc(ast.Assign(targets=b[0].targets, value=_loc(ast.BoolOp(
                        op=ast.Or(), values=[_loc(ast.Name(id=a[0], ctx=ast.Load()), st), a[1]]), st)), st)
                    return [new] + self.block(rest, tail)
            # `if a: (if b: X)` → `if a and b: X`
            while not node.orelse and len(node.body) == 1 and isinstance(node.body[0], ast.If) and not node.body[0].orelse:
                inner = node.body[0]
                node = _loc(ast.If(test=nnf(_loc(ast.BoolOp(op=ast.And(), values=[node.test, inner.test]), st)),
                                   body=inner.body, orelse=[]), st)
            return [node] + self.block(rest, tail)

        if isinstance(st, (ast.For, ast.AsyncFor, ast.While)):
            if isinstance(st, ast.While):
                st.test = nnf(st.test)
            st.body = self.block(st.body, True) or [_loc(ast.Pass(), st)]
            st.orelse = self.block(st.orelse, tail and last)
            return [st] + self.block(rest, tail)

        if isinstance(st, ast.Try):
            inner_tail = tail and last
            st.body = self.block(st.body, inner_tail and not st.orelse)
            for h in st.handlers:
                h.body = self.block(h.body, inner_tail) or [_loc(ast.Pass(), h)]
            st.orelse = self.block(st.orelse, inner_tail)
            st.finalbody = self.block(st.finalbody, False)
            # `try: v = E / except K: v = None` + `if v is not None: X`  →  try / except: pass / else: if …
            a = _assign_to_name(st.body[0]) if len(st.body) == 1 else None
            if a is not None and st.handlers and not st.orelse and not st.finalbody and rest and isinstance(rest[0], ast.If) \
                    and not rest[0].orelse and _is_not_none_test(nnf(rest[0].test), a[0]):
                v = a[0]
                defaults = all(len(h.body) == 1 and _assign_to_name(h.body[0]) is not None
                               and _assign_to_name(h.body[0])[0] == v and _is_none(_assign_to_name(h.body[0])[1])
                               for h in st.handlers)
                if defaults and not self._used_outside(v, [st, rest[0]]):
                    for h in st.handlers:
                        h.body = [_loc(ast.Pass(), h)]
                    st.orelse = self.block([rest[0]], inner_tail and len(rest) == 1)
                    return [st] + self.block(rest[1:], tail)
            return [st] + self.block(rest, tail)

        if isinstance(st, (ast.With, ast.AsyncWith)):
            st.body = self.block(st.body, tail and last)
            return [st] + self.block(rest, tail)

        if isinstance(st, (ast.FunctionDef, ast.AsyncFunctionDef, ast.ClassDef)):
            return [st] + self.block(rest, tail)

        st = self._expr_rules(st)
        # `x = A if c else B` → `if c: x = A else: x = B`; `return A if c else B` → `if c: return A` + `return B`
        if isinstance(st, ast.Assign) and isinstance(st.value, ast.IfExp):
            e = st.value
            return self.block([_loc(ast.If(
                test=e.test,
                body=[_loc(ast.Assign(targets=copy.deepcopy(st.targets), value=e.body), st)],
                orelse=[_loc(ast.Assign(targets=copy.deepcopy(st.targets), value=e.orelse), st)]), st)] + rest, tail)
        if isinstance(st, ast.Return) and isinstance(st.value, ast.IfExp):
            e = st.value
            return self.block([_loc(ast.If(test=e.test, body=[_loc(ast.Return(value=e.body), st)],
                                           orelse=[_loc(ast.Return(value=e.orelse), st)]), st)] + rest, tail)
        # `v = None` + `try: v = E / except K: pass` + `if v is not None: X`
        a = _assign_to_name(st)
        if a is not None and _is_none(a[1]) and len(rest) >= 2 and isinstance(rest[0], ast.Try) and isinstance(rest[1], ast.If):
            tr, cond = rest[0], rest[1]
            b = _assign_to_name(tr.body[0]) if len(tr.body) == 1 else None
            if b is not None and b[0] == a[0] and tr.handlers and not tr.orelse and not tr.finalbody and not cond.orelse \
                    and all(len(h.body) == 1 and isinstance(h.body[0], ast.Pass) for h in tr.handlers) \
                    and _is_not_none_test(nnf(cond.test), a[0]) and not self._used_outside(a[0], [tr, cond]):
                tr = _loc(ast.Try(body=tr.body, handlers=tr.handlers, orelse=[cond], finalbody=[]), tr)
                return self.block([tr] + rest[2:], tail)
        return [st] + self.block(rest, tail)

    # -- loops that build a container ---------------------------------------------------------------------------------------
    def comprehensions(self, stmts):
        out = []
        for st in stmts:
            for field in _BLOCK_FIELDS:
                blk = getattr(st, field, None)
                if isinstance(blk, list) and blk and isinstance(blk[0], ast.stmt) \
                        and not isinstance(st, (ast.FunctionDef, ast.AsyncFunctionDef, ast.ClassDef)):
                    setattr(st, field, self.comprehensions(blk))
            if isinstance(st, ast.Try):
                for h in st.handlers:
                    h.body = self.comprehensions(h.body)
            new = self._loop_to_comprehension(st, out[-1] if out else None)
            if new is None:
                out.append(st)
            else:
                replaces_previous, node = new
                if replaces_previous:
                    out.pop()
                out.append(node)
        return out

    def _is_dict(self, var):
        """Every binding of the local in the function is a dict display, a dict comprehension or a call of dict."""
        values = []
        for n in dfs_own(self.fn):
            if isinstance(n, ast.Name) and n.id == var and isinstance(n.ctx, (ast.Store, ast.Del)):
                values.append(None)
        bound = [n.value for n in dfs_own(self.fn) if _assign_to_name(n) is not None and _assign_to_name(n)[0] == var]
        if not bound or len(bound) != len(values):
            return False
        return all(isinstance(v, (ast.Dict, ast.DictComp)) or (isinstance(v, ast.Call) and is_name(v.func, "dict")) for v in bound)

    def _loop_to_comprehension(self, st, prev):
        if not (isinstance(st, ast.For) and not st.orelse and len(st.body) == 1):
            return None
        inner = st.body[0]
        ifs = []
        if isinstance(inner, ast.If) and not inner.orelse and len(inner.body) == 1:
            ifs = [inner.test]
            inner = inner.body[0]
        targets = _names_in([st.target])
        if any(self._used_outside(v, [st], True) for v in targets):
            return None
        gen = ast.comprehension(target=st.target, iter=st.iter, ifs=ifs, is_async=0)
        init = _assign_to_name(prev) if prev is not None else None
        # L.append(E)
        if isinstance(inner, ast.Expr) and isinstance(inner.value, ast.Call) and isinstance(inner.value.func, ast.Attribute) \
                and isinstance(inner.value.func.value, ast.Name) and len(inner.value.args) == 1 and not inner.value.keywords:
            var, meth, elt = inner.value.func.value.id, inner.value.func.attr, inner.value.args[0]
            if var in targets or var in _names_in([st.iter] + ifs + [elt]):
                return None
            if meth == "append" and init is not None and init[0] == var and isinstance(init[1], ast.List) and not init[1].elts:
                return True, _loc(ast.Assign(targets=prev.targets, value=_loc(ast.ListComp(elt=elt, generators=[gen]), st)), st)
            if meth == "add" and init is not None and init[0] == var and isinstance(init[1], ast.Call) \
                    and is_name(init[1].func, "set") and not init[1].args and not init[1].keywords:
                return True, _loc(ast.Assign(targets=prev.targets, value=_loc(ast.SetComp(elt=elt, generators=[gen]), st)), st)
            return None
        # D[K] = V
        if isinstance(inner, ast.Assign) and len(inner.targets) == 1 and isinstance(inner.targets[0], ast.Subscript) \
                and isinstance(inner.targets[0].value, ast.Name):
            var, key, val = inner.targets[0].value.id, inner.targets[0].slice, inner.value
            if var in targets or var in _names_in([st.iter] + ifs + [key, val]) or isinstance(key, ast.Slice):
                return None
            if not self._is_dict(var):
                return None  # item assignment is `update` for dictionaries only
            if init is not None and init[0] == var and isinstance(init[1], ast.Dict) and not init[1].keys:
                return True, _loc(ast.Assign(targets=prev.targets,
                                             value=_loc(ast.DictComp(key=key, value=val, generators=[gen]), st)), st)
            pair = _loc(ast.Tuple(elts=[key, val], ctx=ast.Load()), st)
            call = _loc(ast.Call(func=_loc(ast.Attribute(value=_loc(ast.Name(id=var, ctx=ast.Load()), st), attr="update",
                                                         ctx=ast.Load()), st),
                                 args=[_loc(ast.GeneratorExp(elt=pair, generators=[gen]), st)], keywords=[]), st)
            return False, _loc(ast.Expr(value=call), st)
        return None

    # -- aliases -------------------------------------------------------------------------------------------------------------
    def aliases(self):
        """A local assigned exactly once, at the top level of the function body or of a block that contains every use,
        to a plain reference (a name or an attribute chain) whose parts are not assigned in the function: replaced by it."""
        fn = self.fn
        params = set(a.arg for a in ast.walk(fn.args) if isinstance(a, ast.arg))
        stores = {}
        for n in dfs_own(fn):
            if isinstance(n, ast.Name) and isinstance(n.ctx, (ast.Store, ast.Del)):
                stores[n.id] = stores.get(n.id, 0) + 1
            elif isinstance(n, ast.ExceptHandler) and n.name:
                stores[n.name] = stores.get(n.name, 0) + 2
        attr_stores = set(n.attr for n in dfs_own(fn) if isinstance(n, ast.Attribute) and isinstance(n.ctx, (ast.Store, ast.Del)))
        declared = set()
        for n in dfs_own(fn):
            if isinstance(n, (ast.Global, ast.Nonlocal)):
                declared |= set(n.names)
        order = dict((id(n), i) for i, n in enumerate(dfs_own(fn)))
        changed = True
        rounds = 0
        while changed and rounds < 10:
            changed = False
            rounds += 1
            for st in [n for n in dfs_own(fn) if isinstance(n, ast.Assign)]:
                a = _assign_to_name(st)
                if a is None:
                    continue
                v, e = a
                if v in params or v in declared or stores.get(v, 0) != 1 or not self._plain_reference(e):
                    continue
                root = e
                chain = []
                while isinstance(root, ast.Attribute):
                    chain.append(root.attr)
                    root = root.value
                if root.id == v or stores.get(root.id, 0) > 0 or root.id in declared:
                    continue
                if any(c in attr_stores for c in chain):
                    continue
                loads = _loads_of(fn, v)
                if sum(1 for n in ast.walk(fn) if is_name(n, v)) != len(loads) + 1:
                    continue  # also mentioned in a nested function / class
                if any(order.get(id(n), -1) < order.get(id(st), 0) for n in loads):
                    continue  # read before the assignment (in a loop, …)
                if not self._dominates(st, loads):
                    continue
                sub = _Subst({v: e}, {})
                self._remove(fn, st)
                for field in ("body",):
                    setattr(fn, field, [sub.visit(s) for s in getattr(fn, field)])
                stores[v] = 0
                order = dict((id(n), i) for i, n in enumerate(dfs_own(fn)))
                changed = True
                break
        return fn

    @staticmethod
    def _plain_reference(e):
        if isinstance(e, ast.Name):
            return True
        if isinstance(e, ast.Attribute):
            return Canon._plain_reference(e.value)
        return False

    def _dominates(self, st, loads):
        """Every use is in the block of the assignment (after it) or nested in a later statement of that block."""
        block = self._block_of(self.fn, st)
        if block is None:
            return False
        i = next(k for k, s in enumerate(block) if s is st)
        later = set(id(n) for s in block[i + 1:] for n in ast.walk(s))
        return all(id(n) in later for n in loads)

    @staticmethod
    def _block_of(root, st):
        for n in dfs_own(root):
            for field in _BLOCK_FIELDS:
                blk = getattr(n, field, None)
                if isinstance(blk, list) and any(s is st for s in blk):
                    return blk
            if isinstance(n, ast.Try):
                for h in n.handlers:
                    if any(s is st for s in h.body):
                        return h.body
        return None

    def _remove(self, root, st):
        blk = self._block_of(root, st)
        k = next(i for i, s in enumerate(blk) if s is st)
        if len(blk) == 1:
            blk[k] = _loc(ast.Pass(), st)
        else:
            del blk[k]


def canonical(fn, aliases=True):
    """A copy of the function in canonical shape (see the module documentation)."""
    fn = copy.deepcopy(fn)
    c = Canon(fn)
    doc = fn.body[:len(fn.body) - len(strip_doc(fn.body))]
    fn.body = doc + c.block(strip_doc(fn.body), False)
    fn.body = c.comprehensions(fn.body)
    if aliases:
        c.aliases()
    ast.fix_missing_locations(fn)
    return fn


def single_assignments(fn):
    """name -> value for the locals bound exactly once in the function, by a plain `name = value`."""
    seen = {}
    for n in dfs_own(fn):
        if isinstance(n, ast.Name) and isinstance(n.ctx, (ast.Store, ast.Del)):
            seen.setdefault(n.id, []).append(None)
        elif isinstance(n, ast.ExceptHandler) and n.name:
            seen.setdefault(n.name, []).append(None)
    params = set(a.arg for a in ast.walk(fn.args) if isinstance(a, ast.arg))
    out = {}
    for n in dfs_own(fn):
        a = _assign_to_name(n)
        if a is not None and len(seen.get(a[0], [])) == 1 and a[0] not in params:
            out[a[0]] = a[1]
    return out


def resolve(node, single, depth=4):
    """A name bound once → the expression it was bound to (repeatedly); anything else → itself."""
    while depth > 0 and isinstance(node, ast.Name) and node.id in single:
        node = single[node.id]
        depth -= 1
    return node


_NORMALISED = {}


def normalised(src, module, qualname, keep=(), aliases=True):
    """The function `qualname` of `module`, helpers inlined and in canonical shape; None when it does not exist.
    `keep`: private functions the facts name themselves (they are part of the vocabulary, not helpers)."""
    key = (id(src), module, qualname, tuple(sorted(keep)), aliases)
    if key in _NORMALISED:
        return _NORMALISED[key][1]
    fn = src.func(module, qualname)
    res = None
    if fn is not None:
        cls = qualname.split(".")[0] if "." in qualname else ""
        try:
            res = canonical(Scope(src.module(module), keep).inline(fn, cls), aliases)
        except (NotSimple, TooComplex, RecursionError, AttributeError, IndexError, KeyError, TypeError, ValueError):
            # never take the provider down: an unexpected shape is read as it is written (the facts then say so)
            res = copy.deepcopy(fn)
    _NORMALISED[key] = (src, res)  # keeps `src` alive: its id cannot be reused
    return res


# ---------------------------------------------------------------------------------------------------------------------
# 3. paths

class TooComplex(Exception):
    pass


class Walk(object):
    """Paths of a block up to the first statement (or test) containing a node that satisfies `is_target`.

    hits   [(conditions, statement)]   conditions: [(expression, outcome, id of the `if`/`while` it belongs to)]
    exits  [(conditions, statement)]   paths that leave (return / raise / continue / break) before any target
    falls  [conditions]                paths that fall off the end of the block without meeting a target
    An `except` clause entered contributes (handler type expression or None, True, id of the try)."""

    LIMIT = 20000

    def __init__(self, stmts, is_target):
        self.is_target = is_target
        self.hits = []
        self.exits = []
        self.steps = 0
        self.falls = self._walk(list(stmts), ())

    def _has_target(self, node):
        return node is not None and any(self.is_target(n) for n in dfs_own(node))

    def _test(self, test, conds, owner):
        """[(conditions, outcome)] for a test; a target inside the test is recorded with the conditions evaluated
        before the operand that contains it."""
        res = []
        t = nnf(test)
        if not self._has_target(t):
            for atoms, val in test_paths(t):
                res.append((conds + tuple((e, o, owner) for e, o in atoms), val))
            return res
        if isinstance(t, ast.BoolOp):
            is_and = isinstance(t.op, ast.And)
            open_ = [conds]
            for v in t.values:
                if self._has_target(v):
                    for c in open_:
                        self.hits.append((c, v))
                    return res
                nxt = []
                for c in open_:
                    for atoms, val in test_paths(v):
                        cc = c + tuple((e, o, owner) for e, o in atoms)
                        if val == is_and:
                            nxt.append(cc)
                        else:
                            res.append((cc, val))
                open_ = nxt
            return res
        self.hits.append((conds, t))
        return res

    def _walk(self, stmts, conds):
        self.steps += 1
        if self.steps > self.LIMIT:
            raise TooComplex()
        if not stmts:
            return [conds]
        st, rest = stmts[0], stmts[1:]
        if isinstance(st, ast.If):
            falls = []
            for c, val in self._test(st.test, conds, id(st)):
                falls.extend(self._walk(list(st.body if val else st.orelse), c))
            out = []
            for c in _dedup(falls):
                out.extend(self._walk(rest, c))
            return out
        if isinstance(st, (ast.For, ast.AsyncFor)):
            if self._has_target(st.iter):
                self.hits.append((conds, st))
                return []
            self._walk(list(st.body), conds)  # one iteration, for the targets inside; what follows the loop
            return self._walk(list(st.orelse) + rest, conds)  # is reached whatever happened in it
        if isinstance(st, ast.While):
            for c, val in self._test(st.test, conds, id(st)):
                if val:
                    self._walk(list(st.body), c)
            return self._walk(list(st.orelse) + rest, conds)
        if isinstance(st, ast.Try):
            falls = []
            body_falls = self._walk(list(st.body), conds)
            for c in body_falls:
                falls.extend(self._walk(list(st.orelse), c))
            for h in st.handlers:
                falls.extend(self._walk(list(h.body), conds + ((h.type, True, id(st)),)))
            if st.finalbody:
                f2 = []
                for c in _dedup(falls):
                    f2.extend(self._walk(list(st.finalbody), c))
                falls = f2
            out = []
            for c in _dedup(falls):
                out.extend(self._walk(rest, c))
            return out
        if isinstance(st, (ast.With, ast.AsyncWith)):
            if any(self._has_target(i.context_expr) for i in st.items):
                self.hits.append((conds, st))
                return []
            out = []
            for c in self._walk(list(st.body), conds):
                out.extend(self._walk(rest, c))
            return out
        if isinstance(st, (ast.FunctionDef, ast.AsyncFunctionDef, ast.ClassDef)):
            return self._walk(rest, conds)
        if self._has_target(st):
            self.hits.append((conds, st))
            return []
        if isinstance(st, (ast.Return, ast.Raise, ast.Continue, ast.Break)):
            self.exits.append((conds, st))
            return []
        return self._walk(rest, conds)


def _dedup(conds_list):
    seen = set()
    out = []
    for c in conds_list:
        k = tuple((id(e), o, w) for e, o, w in c)
        if k not in seen:
            seen.add(k)
            out.append(c)
    return out
