"""
Semantic footing for the extractors of the client / wire / serve-path facts (client.py, e2e.py, headers.py, payload.py,
wire.py, footprint.py, transport.py, serverlife.py): a normaliser that is applied to the parsed modules BEFORE any
pattern is looked for, so that a behaviour-preserving refactoring gives the extractors the same tree to read.

What it does
------------
(a) `nsource(src)` — a view of the `Source` whose trees have every call of a NEW private helper expanded in place.
    "New" means: the function is not in tools/model_pins.json, the list of functions the models were validated against
    (the vocabulary the facts and their companion theorems speak: `_dispatch`, `_safe_jdumps`, `__get_result` … are
    known and are never expanded; `_TransportMixIn__merge_headers`, `_server_error_response`, `Fault.__prepare`, a
    closure defined in the function itself … are not, and are).  A call is expanded only when that is exact:
      * the callee is found by name in the same class (or a base class of the same module), the same module, or is a
        nested `def` of the calling function; it has no `yield`/`await`/`global`/`nonlocal`/`*args`/`**kwargs`, no
        nested definitions, is not recursive, is a plain function, a method, or a static method;
      * every `return` of the callee is in tail position once guard clauses (`if c: …return` + rest) are read as
        `if/else` (tail `if`/`with`/`try` bodies included) — or the call is itself the operand of a `return`, in which
        case any `return` position is fine;
      * the call is evaluated unconditionally by its statement (not behind `and`/`or`/a conditional expression/a
        lambda/a comprehension element) and nothing evaluated before it in that statement can observe or be
        observed by the callee (only local names, constants and method look-ups may precede it);
      * parameters are bound with substitution: an argument that is a local name or a constant replaces a parameter
        that the callee never re-binds; any other argument (or a re-bound parameter) is bound to a local first, in
        argument order (`pairs = headers.items()`), and folded back into its single use when that is the very next
        thing evaluated; `v = self.__h(…, v, …)` with `return <that parameter>` keeps using `v` itself;
      * locals of the callee that clash with names of the caller are renamed; a callee whose free names clash with
        locals of the caller is left alone.
    A helper with no call left is dropped from the normalised module (it is dead code for the package), a helper that
    could not be expanded everywhere stays — with its calls — and the extractors see it as before (so the fact
    changes: a conservative alarm, never a silent loss).  Nothing is "papered over": the expansion is the code that
    runs, so a changed guard, a dropped argument, a moved statement inside a helper shows in the expanded body exactly
    as it would have shown in the original.
(b) canonical forms for idioms, as separate passes an extractor applies to (a copy of) the function it reads:
      guards_flat          `if c: A(ends in return/raise/continue/break) else: B`   ->  `if c: A` ; B
      guards_nested        the opposite direction (used by the expansion above)
      or_defaults          `x = a; if not x: x = d` / `if a: x = a else: x = d` / `x = a if a else d`   ->  `x = a or d`
      loops_to_comprehensions   `x = []; for t in it: x.append(e)`  ->  `x = [e for t in it]` (also with one `if`)
      fold_single_use_locals    `t = e; <statement using t once, first>`  ->  the statement with `e` in place
      merge_handlers       consecutive `except` clauses with the same body  ->  one clause with the tuple of classes;
                           `handler_classes(h)` gives the classes of a clause whatever the spelling
      membership_tests     `a in (None, "")`  ->  `a is None or a == ""`   (`not in` likewise with and/!=)
      negation_normal      `if c: pass else: B` -> `if not c: B`; `not (a is None)` -> `a is not None`; De Morgan
      merge_duplicate_branches   `if a: X elif b: X`  ->  `if a or b: X`
      unalias_self_attrs   `t = self.attr` (attribute not stored to in the function) + uses of `t`  ->  `self.attr`
    (`with lock:` <-> acquire/try/finally is not here: none of the functions these extractors read takes a lock.)
(c) helpers for facts that are about control / data flow:
      eval_order(node)       the sub-expressions and statements of a node in evaluation order (post-order), with a flag
                             telling whether the node is evaluated conditionally / repeatedly
      paths(stmts)           every acyclic path through a statement list (loops taken zero or one time, each handler
                             of a `try` entered after any prefix of its body), as lists of simple statements and
                             branch conditions, ending in 'return' / 'raise' / 'fall'
      path_events(path)      the calls and simple statements of such a path, in evaluation order

The normaliser never invents a fact: when a shape is outside what it handles it leaves the tree alone.
"""
import ast
import copy
import json
import os

PROPERTIES = []


def facts(src):
    """tools/extract.py loads every file of this directory as a provider: this one contributes no fact."""
    return []


# ---------------------------------------------------------------------------------------------------------------
# the vocabulary of the models

def known_functions():
    """Qualified names (`module.func`, `module.Class.func`) the models were validated against, or None when the list
    is not readable (then nothing is expanded)."""
    p = os.path.join(os.path.dirname(os.path.dirname(os.path.abspath(__file__))), "model_pins.json")
    try:
        d = json.load(open(p))
    except (OSError, ValueError):
        return None
    return set(k for k in d if "<assign:" not in k)


# ---------------------------------------------------------------------------------------------------------------
# small AST utilities

def _is_docstring(st):
    return isinstance(st, ast.Expr) and isinstance(st.value, ast.Constant) and isinstance(st.value.value, str)


def _strip_doc(body):
    return body[1:] if body and _is_docstring(body[0]) else body


def same(a, b):
    """Structural equality of two nodes (positions ignored)."""
    if a is None or b is None:
        return a is b
    return ast.dump(a) == ast.dump(b)


def _terminates(stmts):
    """Does the statement list always leave the enclosing block (return / raise / continue / break on every path)?"""
    if not stmts:
        return False
    last = stmts[-1]
    if isinstance(last, (ast.Return, ast.Raise, ast.Continue, ast.Break)):
        return True
    if isinstance(last, ast.If):
        return bool(last.orelse) and _terminates(last.body) and _terminates(last.orelse)
    if isinstance(last, (ast.With, ast.AsyncWith)):
        return _terminates(last.body)
    if isinstance(last, ast.Try):
        if last.finalbody and _terminates(last.finalbody):
            return True
        main = _terminates(last.orelse) if last.orelse else _terminates(last.body)
        return main and all(_terminates(h.body) for h in last.handlers)
    return False


def _leaves_function(stmts):
    """Always ends in return / raise (not merely continue / break)."""
    if not stmts:
        return False
    last = stmts[-1]
    if isinstance(last, (ast.Return, ast.Raise)):
        return True
    if isinstance(last, ast.If):
        return bool(last.orelse) and _leaves_function(last.body) and _leaves_function(last.orelse)
    if isinstance(last, (ast.With, ast.AsyncWith)):
        return _leaves_function(last.body)
    if isinstance(last, ast.Try):
        if last.finalbody and _leaves_function(last.finalbody):
            return True
        main = _leaves_function(last.orelse) if last.orelse else _leaves_function(last.body)
        return main and all(_leaves_function(h.body) for h in last.handlers)
    return False


def _stmt_lists(node):
    """Every statement list below node (node's own included), outermost first."""
    for n in ast.walk(node):
        for field in ("body", "orelse", "finalbody"):
            b = getattr(n, field, None)
            if isinstance(b, list) and (not b or isinstance(b[0], ast.stmt)):
                yield n, field, b
        # (ExceptHandler has a `body` field and is reached by ast.walk)


def names_used(node):
    out = set()
    for n in ast.walk(node):
        if isinstance(n, ast.Name):
            out.add(n.id)
        elif isinstance(n, ast.arg):
            out.add(n.arg)
        elif isinstance(n, ast.ExceptHandler) and n.name:
            out.add(n.name)
        elif isinstance(n, (ast.FunctionDef, ast.AsyncFunctionDef, ast.ClassDef)):
            out.add(n.name)
        elif isinstance(n, (ast.Import, ast.ImportFrom)):
            for al in n.names:
                out.add((al.asname or al.name).split(".")[0])
        elif isinstance(n, (ast.Global, ast.Nonlocal)):
            out.update(n.names)
    return out


def names_bound(fn):
    """Names a function binds (parameters, every Store/Del target, handler names, imports)."""
    out = set()
    a = fn.args
    for x in a.posonlyargs + a.args + a.kwonlyargs:
        out.add(x.arg)
    if a.vararg:
        out.add(a.vararg.arg)
    if a.kwarg:
        out.add(a.kwarg.arg)
    for st in fn.body:
        for n in ast.walk(st):
            if isinstance(n, ast.Name) and isinstance(n.ctx, (ast.Store, ast.Del)):
                out.add(n.id)
            elif isinstance(n, ast.ExceptHandler) and n.name:
                out.add(n.name)
            elif isinstance(n, (ast.FunctionDef, ast.AsyncFunctionDef, ast.ClassDef)):
                out.add(n.name)
            elif isinstance(n, (ast.Import, ast.ImportFrom)):
                for al in n.names:
                    out.add((al.asname or al.name).split(".")[0])
    return out


# ---------------------------------------------------------------------------------------------------------------
# (c) evaluation order

def eval_order(node, cond=False, out=None):
    """[(sub-node, conditional)] in evaluation order, post-order (a node comes after the operands it evaluates).
    `conditional` is True when the sub-node may be skipped, evaluated later, or evaluated several times relative to
    the statement that holds it (right operand of and/or, arms of a conditional expression, later comparators of a
    chain, lambda bodies, everything of a comprehension but its first iterable)."""
    if out is None:
        out = []
    if node is None:
        return out
    if isinstance(node, ast.BoolOp):
        for i, v in enumerate(node.values):
            eval_order(v, cond or i > 0, out)
    elif isinstance(node, ast.IfExp):
        eval_order(node.test, cond, out)
        eval_order(node.body, True, out)
        eval_order(node.orelse, True, out)
    elif isinstance(node, ast.Lambda):
        eval_order(node.body, True, out)
    elif isinstance(node, (ast.ListComp, ast.SetComp, ast.GeneratorExp, ast.DictComp)):
        for i, g in enumerate(node.generators):
            eval_order(g.iter, cond or i > 0, out)
            eval_order(g.target, True, out)
            for t in g.ifs:
                eval_order(t, True, out)
        if isinstance(node, ast.DictComp):
            eval_order(node.key, True, out)
            eval_order(node.value, True, out)
        else:
            eval_order(node.elt, True, out)
    elif isinstance(node, ast.Compare):
        eval_order(node.left, cond, out)
        for i, c in enumerate(node.comparators):
            eval_order(c, cond or i > 0, out)
    elif isinstance(node, ast.Dict):
        for k, v in zip(node.keys, node.values):
            eval_order(k, cond, out)
            eval_order(v, cond, out)
    elif isinstance(node, ast.NamedExpr):
        eval_order(node.value, cond, out)
        eval_order(node.target, cond, out)
    elif isinstance(node, ast.Assign):
        eval_order(node.value, cond, out)
        for t in node.targets:
            eval_order(t, cond, out)
    elif isinstance(node, ast.AugAssign):
        eval_order(node.target, cond, out)
        eval_order(node.value, cond, out)
    elif isinstance(node, ast.AnnAssign):
        eval_order(node.value, cond, out)
        eval_order(node.target, cond, out)
    elif isinstance(node, ast.If):
        eval_order(node.test, cond, out)
        for s in node.body + node.orelse:
            eval_order(s, True, out)
    elif isinstance(node, (ast.For, ast.AsyncFor)):
        eval_order(node.iter, cond, out)
        eval_order(node.target, True, out)
        for s in node.body + node.orelse:
            eval_order(s, True, out)
    elif isinstance(node, ast.While):
        eval_order(node.test, True, out)
        for s in node.body + node.orelse:
            eval_order(s, True, out)
    elif isinstance(node, (ast.With, ast.AsyncWith)):
        for it in node.items:
            eval_order(it.context_expr, cond, out)
            eval_order(it.optional_vars, cond, out)
        for s in node.body:
            eval_order(s, cond, out)
    elif isinstance(node, ast.Try):
        for s in node.body:
            eval_order(s, cond, out)
        for h in node.handlers:
            eval_order(h.type, True, out)
            for s in h.body:
                eval_order(s, True, out)
        for s in node.orelse:
            eval_order(s, True, out)
        for s in node.finalbody:
            eval_order(s, cond, out)
    elif isinstance(node, (ast.FunctionDef, ast.AsyncFunctionDef)):
        for d in node.decorator_list:
            eval_order(d, cond, out)
        for s in node.body:
            eval_order(s, cond, out)
    elif isinstance(node, ast.ClassDef):
        for s in node.body:
            eval_order(s, True, out)
    else:
        for c in ast.iter_child_nodes(node):
            if isinstance(c, ast.keyword):
                eval_order(c.value, cond, out)
            elif isinstance(c, (ast.expr, ast.stmt)):
                eval_order(c, cond, out)
    out.append((node, cond))
    return out


def calls_in_order(node):
    """The Call nodes of a function / statement list / statement, in evaluation order."""
    nodes = node if isinstance(node, list) else [node]
    out = []
    for n in nodes:
        out.extend(m for m, _c in eval_order(n) if isinstance(m, ast.Call))
    return out


def _header_exprs(st):
    """The expressions a statement evaluates itself, once, before any nested block (None: not handled)."""
    if isinstance(st, ast.Expr):
        return [st.value]
    if isinstance(st, ast.Assign):
        return [st.value]
    if isinstance(st, ast.AnnAssign):
        return [st.value] if st.value is not None else []
    if isinstance(st, ast.AugAssign):
        # the target is read before the value is evaluated
        return None if not isinstance(st.target, ast.Name) else [st.value]
    if isinstance(st, ast.Return):
        return [st.value] if st.value is not None else []
    if isinstance(st, ast.Raise):
        return [x for x in (st.exc, st.cause) if x is not None]
    if isinstance(st, ast.If):
        return [st.test]
    if isinstance(st, (ast.For, ast.AsyncFor)):
        return [st.iter]
    if isinstance(st, (ast.With, ast.AsyncWith)):
        return [st.items[0].context_expr] if st.items else []
    if isinstance(st, ast.Assert):
        return [st.test]
    return None


def _prefix_safe(node, parent_is_call_func):
    """May this already-evaluated sub-expression be moved after a block of statements?  Local names, constants and
    method look-ups only: a data attribute read or a call could observe what the block does."""
    if isinstance(node, (ast.Name, ast.Constant)):
        return True
    if isinstance(node, ast.Attribute) and parent_is_call_func:
        return True
    return False


def _position_of(target, exprs):
    """Is `target` (a node inside one of exprs) evaluated unconditionally, with nothing but safe operands before it?
    -> (ok, conditional)"""
    func_nodes = set()
    for e in exprs:
        for n in ast.walk(e):
            if isinstance(n, ast.Call):
                f = n.func
                while isinstance(f, ast.Attribute):     # a method look-up, through a chain of attributes
                    func_nodes.add(id(f))
                    f = f.value
    inside = set(id(n) for n in ast.walk(target))
    for e in exprs:
        for n, cond in eval_order(e):
            if n is target:
                return (not cond), cond
            if id(n) in inside:
                continue        # operands of the target itself
            if not _prefix_safe(n, id(n) in func_nodes):
                # an enclosing node that is still being evaluated comes AFTER the target in post-order, so whatever is
                # met here has been completely evaluated before the target
                return False, cond
    return False, False


# ---------------------------------------------------------------------------------------------------------------
# (b) canonical forms

def guards_nested(stmts):
    """`if c: A(terminates)` ; B   ->   `if c: A else: B`, recursively, in place; returns the list."""
    i = 0
    while i < len(stmts):
        st = stmts[i]
        if isinstance(st, ast.If):
            guards_nested(st.body)
            guards_nested(st.orelse)
            rest = stmts[i + 1:]
            if rest and not st.orelse and _terminates(st.body):
                st.orelse = guards_nested(rest)
                del stmts[i + 1:]
                break
            if rest and st.orelse and _terminates(st.orelse) and not _terminates(st.body):
                st.body.extend(guards_nested(rest))
                del stmts[i + 1:]
                break
        elif isinstance(st, (ast.With, ast.AsyncWith, ast.For, ast.AsyncFor, ast.While)):
            guards_nested(st.body)
            if getattr(st, "orelse", None):
                guards_nested(st.orelse)
        elif isinstance(st, ast.Try):
            guards_nested(st.body)
            for h in st.handlers:
                guards_nested(h.body)
            guards_nested(st.orelse)
            guards_nested(st.finalbody)
        i += 1
    return stmts


def guards_flat(stmts):
    """`if c: A(terminates) else: B`  ->  `if c: A` ; B   and   `if c: A else: B(terminates)`  ->  `if not c: B` ; A is
    NOT done (the test would change): only the first form, recursively, in place; returns the list."""
    i = 0
    while i < len(stmts):
        st = stmts[i]
        if isinstance(st, ast.If):
            guards_flat(st.body)
            guards_flat(st.orelse)
            if st.orelse and _terminates(st.body):
                tail = st.orelse
                st.orelse = []
                stmts[i + 1:i + 1] = tail
        elif isinstance(st, (ast.With, ast.AsyncWith, ast.For, ast.AsyncFor, ast.While)):
            guards_flat(st.body)
            if getattr(st, "orelse", None):
                guards_flat(st.orelse)
        elif isinstance(st, ast.Try):
            guards_flat(st.body)
            for h in st.handlers:
                guards_flat(h.body)
            guards_flat(st.orelse)
            guards_flat(st.finalbody)
        i += 1
    return stmts


def _pure_ref(e):
    """A local name or an attribute chain on a name: evaluating it twice is evaluating it once."""
    while isinstance(e, ast.Attribute):
        e = e.value
    return isinstance(e, ast.Name)


def _single_assign(st):
    if isinstance(st, ast.Assign) and len(st.targets) == 1:
        return st.targets[0], st.value
    return None, None


def _negated(t):
    if isinstance(t, ast.UnaryOp) and isinstance(t.op, ast.Not):
        return t.operand
    return None


def or_defaults(fn):
    """Rewrites, in place, the spellings of "a, or d when a is falsy" as `x = a or d`."""
    for n in list(ast.walk(fn)):
        if isinstance(n, ast.IfExp) and _pure_ref(n.test) and same(n.test, n.body):
            _replace_node(fn, n, ast.copy_location(ast.BoolOp(op=ast.Or(), values=[n.body, n.orelse]), n))
        elif isinstance(n, ast.IfExp) and _negated(n.test) is not None and _pure_ref(n.orelse) and same(_negated(n.test), n.orelse):
            _replace_node(fn, n, ast.copy_location(ast.BoolOp(op=ast.Or(), values=[n.orelse, n.body]), n))
    for _n, _f, block in list(_stmt_lists(fn)):
        i = 0
        while i < len(block):
            st = block[i]
            # x = a ; if not x: x = d
            t, v = _single_assign(st)
            if t is not None and _pure_ref(t) and i + 1 < len(block) and isinstance(block[i + 1], ast.If):
                nx = block[i + 1]
                neg = _negated(nx.test)
                if neg is not None and same(neg, _load(t)) and not nx.orelse and len(nx.body) == 1:
                    t2, v2 = _single_assign(nx.body[0])
                    if t2 is not None and same(t2, t):
                        st.value = ast.BoolOp(op=ast.Or(), values=[v, v2])
                        del block[i + 1]
                        continue
            # if a: x = a else: x = d      /      if not a: x = d else: x = a
            if isinstance(st, ast.If) and len(st.body) == 1 and len(st.orelse) == 1:
                t1, v1 = _single_assign(st.body[0])
                t2, v2 = _single_assign(st.orelse[0])
                if t1 is not None and t2 is not None and same(t1, t2):
                    neg = _negated(st.test)
                    if neg is None and _pure_ref(st.test) and same(st.test, v1):
                        block[i] = ast.copy_location(ast.Assign(targets=[t1], value=ast.BoolOp(op=ast.Or(), values=[v1, v2])), st)
                    elif neg is not None and _pure_ref(neg) and same(neg, v2):
                        block[i] = ast.copy_location(ast.Assign(targets=[t1], value=ast.BoolOp(op=ast.Or(), values=[v2, v1])), st)
            # if not x: x = d        (x a parameter / local already holding a)   ->   x = x or d
            if isinstance(st, ast.If) and not st.orelse and len(st.body) == 1:
                neg = _negated(st.test)
                t1, v1 = _single_assign(st.body[0])
                if neg is not None and t1 is not None and isinstance(t1, ast.Name) and same(neg, _load(t1)):
                    block[i] = ast.copy_location(ast.Assign(targets=[t1], value=ast.BoolOp(op=ast.Or(), values=[_load(t1), v1])), st)
            i += 1
    ast.fix_missing_locations(fn)
    return fn


def _load(t):
    t = copy.deepcopy(t)
    for n in ast.walk(t):
        if hasattr(n, "ctx"):
            n.ctx = ast.Load()
    return t


def _store_count(fn, name):
    c = 0
    for n in ast.walk(fn):
        if isinstance(n, ast.Name) and n.id == name and isinstance(n.ctx, (ast.Store, ast.Del)):
            c += 1
        elif isinstance(n, ast.arg) and n.arg == name:
            c += 1
        elif isinstance(n, ast.ExceptHandler) and n.name == name:
            c += 1
    return c


def _load_count(fn, name):
    return sum(1 for n in ast.walk(fn) if isinstance(n, ast.Name) and n.id == name and isinstance(n.ctx, ast.Load))


def loops_to_comprehensions(fn):
    """`x = []` directly followed by `for t in it: x.append(e)` (or `if c: x.append(e)`), x a local bound nowhere
    else  ->  `x = [e for t in it (if c)]`, in place.  The loop evaluates the same calls in the same order as the
    comprehension; the loop variable must not be used afterwards."""
    for _n, _f, block in list(_stmt_lists(fn)):
        i = 0
        while i + 1 < len(block):
            st, lp = block[i], block[i + 1]
            t, v = _single_assign(st)
            ok = (isinstance(t, ast.Name) and isinstance(v, ast.List) and not v.elts and isinstance(lp, ast.For)
                  and not lp.orelse and len(lp.body) == 1 and _store_count(fn, t.id) == 1)
            if ok:
                inner, conds = lp.body[0], []
                while isinstance(inner, ast.If) and not inner.orelse and len(inner.body) == 1:
                    conds.append(inner.test)
                    inner = inner.body[0]
                call = inner.value if isinstance(inner, ast.Expr) else None
                if isinstance(call, ast.Call) and isinstance(call.func, ast.Attribute) and call.func.attr == "append" \
                        and isinstance(call.func.value, ast.Name) and call.func.value.id == t.id and len(call.args) == 1 \
                        and not call.keywords:
                    loop_vars = set(m.id for m in ast.walk(lp.target) if isinstance(m, ast.Name))
                    uses_x = any(isinstance(m, ast.Name) and m.id == t.id for e in [call.args[0], lp.iter] + conds for m in ast.walk(e))
                    later = any(isinstance(m, ast.Name) and m.id in loop_vars for s in block[i + 2:] for m in ast.walk(s))
                    if not uses_x and not later:
                        comp = ast.ListComp(elt=call.args[0], generators=[
                            ast.comprehension(target=lp.target, iter=lp.iter, ifs=conds, is_async=0)])
                        st.value = ast.copy_location(comp, lp)
                        del block[i + 1]
                        ast.fix_missing_locations(st)
                        continue
            i += 1
    return fn


def _replace_node(root, old, new):
    """Replaces the node `old` (by identity) below `root` with `new`."""
    for parent in ast.walk(root):
        for field, val in ast.iter_fields(parent):
            if val is old:
                setattr(parent, field, new)
                return True
            if isinstance(val, list):
                for k, x in enumerate(val):
                    if x is old:
                        val[k] = new
                        return True
    return False


def fold_single_use_locals(fn, only=None):
    """`t = e` directly followed by a statement that evaluates `t` once, unconditionally, before anything that could
    interfere, `t` being bound once and read once in the whole function  ->  that statement with `e` in place of `t`.
    `only`: restrict to these names."""
    changed = True
    while changed:
        changed = False
        for _n, _f, block in list(_stmt_lists(fn)):
            i = 0
            while i + 1 < len(block):
                st, nx = block[i], block[i + 1]
                t, v = _single_assign(st)
                if isinstance(t, ast.Name) and (only is None or t.id in only) and _store_count(fn, t.id) == 1 \
                        and _load_count(fn, t.id) == 1:
                    exprs = _header_exprs(nx)
                    if exprs:
                        use = [m for e in exprs for m in ast.walk(e) if isinstance(m, ast.Name) and m.id == t.id]
                        if len(use) == 1:
                            ok, _c = _position_of(use[0], exprs)
                            if ok:
                                _replace_node(nx, use[0], v)
                                del block[i]
                                changed = True
                                continue
                i += 1
    return fn


def handler_classes(h):
    """Class names an `except` clause catches: [] for a bare clause, ['?'] for something that is not a name."""
    if h.type is None:
        return []
    elts = h.type.elts if isinstance(h.type, ast.Tuple) else [h.type]
    out = []
    for e in elts:
        if isinstance(e, ast.Name):
            out.append(e.id)
        elif isinstance(e, ast.Attribute):
            out.append(e.attr)
        else:
            out.append("?")
    return out


def merge_handlers(fn):
    """Consecutive `except` clauses with the same name binding and the same body become one clause catching the tuple
    of their classes (a bare clause absorbs nothing: it stays by itself), in place."""
    for n in ast.walk(fn):
        if not isinstance(n, ast.Try):
            continue
        out = []
        for h in n.handlers:
            prev = out[-1] if out else None
            if prev is not None and prev.type is not None and h.type is not None and prev.name == h.name \
                    and len(prev.body) == len(h.body) and all(same(a, b) for a, b in zip(prev.body, h.body)):
                pe = prev.type.elts if isinstance(prev.type, ast.Tuple) else [prev.type]
                he = h.type.elts if isinstance(h.type, ast.Tuple) else [h.type]
                prev.type = ast.copy_location(ast.Tuple(elts=list(pe) + list(he), ctx=ast.Load()), prev.type)
            else:
                out.append(h)
        n.handlers = out
    return fn


def membership_tests(fn):
    """`a in (x, y)` -> `a == x or a == y` (`is None` for None), `a not in (x, y)` -> `a != x and a != y`; `a` must be
    a plain reference (evaluated several times).  In place."""
    for n in list(ast.walk(fn)):
        if isinstance(n, ast.Compare) and len(n.ops) == 1 and isinstance(n.ops[0], (ast.In, ast.NotIn)) \
                and isinstance(n.comparators[0], (ast.Tuple, ast.List, ast.Set)) and n.comparators[0].elts and _pure_ref(n.left) \
                and all(isinstance(e, ast.Constant) for e in n.comparators[0].elts):
            pos = isinstance(n.ops[0], ast.In)
            parts = []
            for e in n.comparators[0].elts:
                if e.value is None:
                    op = ast.Is() if pos else ast.IsNot()
                else:
                    op = ast.Eq() if pos else ast.NotEq()
                parts.append(ast.Compare(left=copy.deepcopy(n.left), ops=[op], comparators=[e]))
            new = parts[0] if len(parts) == 1 else ast.BoolOp(op=ast.Or() if pos else ast.And(), values=parts)
            ast.copy_location(new, n)
            ast.fix_missing_locations(new)
            _replace_node(fn, n, new)
    return fn


_NEG = {ast.Is: ast.IsNot, ast.IsNot: ast.Is, ast.Eq: ast.NotEq, ast.NotEq: ast.Eq, ast.In: ast.NotIn, ast.NotIn: ast.In,
        ast.Lt: ast.GtE, ast.GtE: ast.Lt, ast.Gt: ast.LtE, ast.LtE: ast.Gt}


def _negate(t, order_ops=False):
    """The negation of a test, pushed inwards (De Morgan; `not a is b` -> `a is not b`).  Ordering comparisons are
    only flipped when asked (`not a < b` is `a >= b` for numbers, not for every type)."""
    inner = _negated(t)
    if inner is not None:
        return inner
    if isinstance(t, ast.Compare) and len(t.ops) == 1:
        op = type(t.ops[0])
        if op in _NEG and (order_ops or op not in (ast.Lt, ast.GtE, ast.Gt, ast.LtE)):
            return ast.copy_location(ast.Compare(left=t.left, ops=[_NEG[op]()], comparators=t.comparators), t)
    if isinstance(t, ast.BoolOp):
        op = ast.And() if isinstance(t.op, ast.Or) else ast.Or()
        return ast.copy_location(ast.BoolOp(op=op, values=[_negate(v, order_ops) for v in t.values]), t)
    return ast.copy_location(ast.UnaryOp(op=ast.Not(), operand=t), t)


def negation_normal(fn):
    """`if c: pass else: B` -> `if not c: B`; `not (a is None)` -> `a is not None`; `not (A or B)` -> `not A and not B`;
    `not not a` in a test -> `a`.  In place."""
    for _n, _f, block in list(_stmt_lists(fn)):
        for st in block:
            if isinstance(st, ast.If) and st.orelse and all(isinstance(x, ast.Pass) or _is_docstring(x) for x in st.body):
                st.test = _negate(st.test)
                st.body, st.orelse = st.orelse, []
    changed = True
    while changed:
        changed = False
        for n in list(ast.walk(fn)):
            if isinstance(n, ast.UnaryOp) and isinstance(n.op, ast.Not):
                o = n.operand
                if isinstance(o, ast.BoolOp) or (isinstance(o, ast.Compare) and len(o.ops) == 1 and type(o.ops[0]) in _NEG
                                                 and not isinstance(o.ops[0], (ast.Lt, ast.GtE, ast.Gt, ast.LtE))):
                    _replace_node(fn, n, _negate(o))
                    changed = True
                    break
                if isinstance(o, ast.UnaryOp) and isinstance(o.op, ast.Not):
                    # `not not a` is bool(a): the same as `a` only where a truth value is asked for
                    pass
    for n in list(ast.walk(fn)):
        if isinstance(n, (ast.If, ast.While, ast.IfExp)):
            t = n.test
            while isinstance(t, ast.UnaryOp) and isinstance(t.op, ast.Not) and isinstance(t.operand, ast.UnaryOp) \
                    and isinstance(t.operand.op, ast.Not):
                t = t.operand.operand
            n.test = t
    ast.fix_missing_locations(fn)
    return fn


def merge_duplicate_branches(fn):
    """`if a: X elif b: X [else: Y]` -> `if a or b: X [else: Y]` (the tests are evaluated in the same order, the second
    only when the first is false).  In place."""
    changed = True
    while changed:
        changed = False
        for n in ast.walk(fn):
            if isinstance(n, ast.If) and len(n.orelse) == 1 and isinstance(n.orelse[0], ast.If):
                inner = n.orelse[0]
                if len(n.body) == len(inner.body) and all(same(a, b) for a, b in zip(n.body, inner.body)):
                    vals = (n.test.values if isinstance(n.test, ast.BoolOp) and isinstance(n.test.op, ast.Or) else [n.test]) + \
                           (inner.test.values if isinstance(inner.test, ast.BoolOp) and isinstance(inner.test.op, ast.Or) else [inner.test])
                    n.test = ast.copy_location(ast.BoolOp(op=ast.Or(), values=vals), n.test)
                    n.orelse = inner.orelse
                    changed = True
                    break
    ast.fix_missing_locations(fn)
    return fn


def unalias_self_attrs(fn):
    """`t = self.a[.b]` (t bound once; no store to an attribute of that name, no call between… conservatively: the
    attribute name is never stored to in the function)  ->  uses of `t` become the attribute chain.  In place."""
    stored = set(n.attr for n in ast.walk(fn) if isinstance(n, ast.Attribute) and isinstance(n.ctx, (ast.Store, ast.Del)))
    for _n, _f, block in list(_stmt_lists(fn)):
        i = 0
        while i < len(block):
            t, v = _single_assign(block[i])
            if isinstance(t, ast.Name) and isinstance(v, ast.Attribute) and _pure_ref(v) and _store_count(fn, t.id) == 1:
                chain, e = [], v
                while isinstance(e, ast.Attribute):
                    chain.append(e.attr)
                    e = e.value
                if isinstance(e, ast.Name) and e.id == "self" and not (set(chain) & stored):
                    for m in list(ast.walk(fn)):
                        if isinstance(m, ast.Name) and m.id == t.id and isinstance(m.ctx, ast.Load):
                            _replace_node(fn, m, copy.deepcopy(v))
                    del block[i]
                    continue
            i += 1
    return fn


# ---------------------------------------------------------------------------------------------------------------
# (c) paths

class Path(object):
    __slots__ = ("steps", "end")

    def __init__(self, steps, end):
        self.steps = steps      # [("stmt", node) | ("test", expr, truth) | ("iter", expr) | ("except", handler)]
        self.end = end          # 'return' | 'raise' | 'fall' | 'break' | 'continue'


def paths(stmts, limit=4000):
    """Acyclic paths through a statement list: loops run zero or one time, `try` bodies complete or are left for each
    handler after every prefix that can raise; `finally` blocks are appended.  Each path is a Path."""
    def block(stmts):
        if not stmts:
            return [([], "fall")]
        out = []
        for steps, end in one(stmts[0]):
            if end == "fall":
                for s2, e2 in block(stmts[1:]):
                    out.append((steps + s2, e2))
                    if len(out) > limit:
                        return out
            else:
                out.append((steps, end))
        return out

    def one(st):
        if isinstance(st, ast.Return):
            return [([("stmt", st)], "return")]
        if isinstance(st, ast.Raise):
            return [([("stmt", st)], "raise")]
        if isinstance(st, ast.Break):
            return [([], "break")]
        if isinstance(st, ast.Continue):
            return [([], "continue")]
        if isinstance(st, ast.If):
            out = []
            for s, e in block(st.body):
                out.append(([("test", st.test, True)] + s, e))
            for s, e in block(st.orelse):
                out.append(([("test", st.test, False)] + s, e))
            return out
        if isinstance(st, (ast.For, ast.AsyncFor, ast.While)):
            head = ("iter", st.iter) if not isinstance(st, ast.While) else ("test", st.test, True)
            out = []
            for s, e in block(st.orelse):
                out.append(([head] + s, e))                     # zero iterations
            for s, e in block(st.body):
                if e in ("fall", "continue"):
                    for s2, e2 in block(st.orelse):
                        out.append(([head] + s + s2, e2))
                elif e == "break":
                    out.append(([head] + s, "fall"))
                else:
                    out.append(([head] + s, e))
            return out
        if isinstance(st, (ast.With, ast.AsyncWith)):
            return [([("stmt", st)] + s, e) for s, e in block(st.body)]
        if isinstance(st, ast.Try):
            out = []
            fin = block(st.finalbody) if st.finalbody else [([], "fall")]

            def with_finally(steps, end):
                return [(steps + fs, end if fe == "fall" else fe) for fs, fe in fin]
            body_paths = block(st.body)
            for s, e in body_paths:
                if e == "fall":
                    for s2, e2 in block(st.orelse):
                        out.extend(with_finally(s + s2, e2))
                else:
                    out.extend(with_finally(s, e))
            seen = set()
            for s, _e in body_paths:
                for k in range(len(s)):
                    node = s[k][1]
                    if not any(isinstance(m, (ast.Call, ast.Subscript, ast.Attribute, ast.Raise, ast.BinOp)) for m in ast.walk(node)):
                        continue
                    key = tuple(id(x[1]) for x in s[:k + 1])
                    if key in seen:
                        continue
                    seen.add(key)
                    for h in st.handlers:
                        for s2, e2 in block(h.body):
                            out.extend(with_finally(s[:k + 1] + [("except", h)] + s2, e2))
                    if len(out) > limit:
                        return out
            return out
        return [([("stmt", st)], "fall")]

    return [Path(s, e) for s, e in block(stmts)]


# ---------------------------------------------------------------------------------------------------------------
def path_events(path):
    """The simple statements and the calls of a Path in evaluation order: ('call', Call) before the statement / test
    that evaluates it, ('stmt', statement), ('test', expr, truth), ('except', handler)."""
    out = []
    for step in path.steps:
        kind, node = step[0], step[1]
        if kind == "stmt" and isinstance(node, (ast.With, ast.AsyncWith)):
            for it in node.items:
                out.extend(("call", m) for m, _c in eval_order(it.context_expr) if isinstance(m, ast.Call))
            continue
        if kind == "except":
            out.append(step)
            continue
        out.extend(("call", m) for m, _c in eval_order(node) if isinstance(m, ast.Call))
        out.append(step)
    return out


# ---------------------------------------------------------------------------------------------------------------
# (a) expansion of private helpers

class _NoInline(Exception):
    pass


def _mangled(cls_name, attr):
    if cls_name and attr.startswith("__") and not attr.endswith("__"):
        return "_%s%s" % (cls_name.lstrip("_"), attr)
    return attr


class _Helper(object):
    def __init__(self, fn, kind, owner):
        self.fn = fn            # FunctionDef
        self.kind = kind        # 'function' | 'method' | 'static' | 'closure'
        self.owner = owner      # ClassDef or None


def _helper_kind(fn, in_class):
    if isinstance(fn, ast.AsyncFunctionDef):
        return None
    decos = [d.id if isinstance(d, ast.Name) else None for d in fn.decorator_list]
    if not in_class:
        return "function" if not decos else None
    if not decos:
        return "method"
    if decos == ["staticmethod"]:
        return "static"
    return None


def _body_ok(fn):
    a = fn.args
    if a.vararg or a.kwarg or a.posonlyargs:
        raise _NoInline("star parameters")
    for d in list(a.defaults) + [d for d in a.kw_defaults if d is not None]:
        if not isinstance(d, ast.Constant) and not (isinstance(d, ast.UnaryOp) and isinstance(d.operand, ast.Constant)):
            raise _NoInline("non-constant default")
    for st in fn.body:
        for n in ast.walk(st):
            if isinstance(n, (ast.Yield, ast.YieldFrom, ast.Await, ast.Global, ast.Nonlocal, ast.FunctionDef,
                              ast.AsyncFunctionDef, ast.ClassDef, ast.Lambda, ast.AsyncFor, ast.AsyncWith)):
                raise _NoInline(type(n).__name__)
            if isinstance(n, ast.Call) and isinstance(n.func, ast.Name) and n.func.id in ("locals", "vars", "super", "eval", "exec"):
                raise _NoInline("introspection")
            if isinstance(n, ast.Call) and ((isinstance(n.func, ast.Name) and n.func.id == fn.name) or
                                            (isinstance(n.func, ast.Attribute) and n.func.attr == fn.name)):
                raise _NoInline("recursive")


def _returns_tail_only(stmts, tail=True):
    """After guards_nested: is every `return` in tail position?"""
    for i, st in enumerate(stmts):
        last = tail and i == len(stmts) - 1
        if isinstance(st, ast.Return):
            if not last:
                return False
        elif isinstance(st, ast.If):
            if not _returns_tail_only(st.body, last) or not _returns_tail_only(st.orelse, last):
                return False
        elif isinstance(st, (ast.With,)):
            if not _returns_tail_only(st.body, last):
                return False
        elif isinstance(st, ast.Try):
            has_ret_body = any(isinstance(m, ast.Return) for s in st.body for m in ast.walk(s))
            if has_ret_body and st.orelse:
                return False
            if any(isinstance(m, ast.Return) for s in st.finalbody for m in ast.walk(s)):
                return False
            if not _returns_tail_only(st.body, last) or not _returns_tail_only(st.orelse, last):
                return False
            for h in st.handlers:
                if not _returns_tail_only(h.body, last):
                    return False
        elif isinstance(st, (ast.For, ast.While)):
            if any(isinstance(m, ast.Return) for m in ast.walk(st)):
                return False
        else:
            if any(isinstance(m, ast.Return) for m in ast.walk(st)):
                return False
    return True


def _has_effect(e):
    return not isinstance(e, (ast.Name, ast.Constant))


def _explicit_returns(stmts, like):
    """Makes the implicit `return None` of a (guards_nested) body explicit on every path that falls off its end."""
    if _leaves_function(stmts):
        return stmts
    none = lambda: ast.copy_location(ast.Return(value=ast.Constant(value=None)), like)
    if not stmts:
        return [none()]
    last = stmts[-1]
    if isinstance(last, ast.If):
        last.body = _explicit_returns(last.body, like)
        last.orelse = _explicit_returns(last.orelse, like)
        return stmts
    if isinstance(last, ast.Try) and not last.finalbody:
        if last.orelse:
            last.orelse = _explicit_returns(last.orelse, like)
        else:
            last.body = _explicit_returns(last.body, like)
        for h in last.handlers:
            h.body = _explicit_returns(h.body, like)
        return stmts
    return stmts + [none()]


def _convert_returns(stmts, mode, target, tail=True):
    """Rewrites the tail returns of a (guards_nested, _explicit_returns) body: mode 'drop' (value evaluated for its
    effect), 'assign' (`target = value`; `target = target` is dropped)."""
    out = []
    for i, st in enumerate(stmts):
        last = tail and i == len(stmts) - 1
        if isinstance(st, ast.Return):
            v = st.value if st.value is not None else ast.copy_location(ast.Constant(value=None), st)
            if mode == "assign":
                if not (isinstance(v, ast.Name) and v.id == target.id):
                    out.append(ast.copy_location(ast.Assign(targets=[ast.Name(id=target.id, ctx=ast.Store())], value=v), st))
            elif _has_effect(v):
                out.append(ast.copy_location(ast.Expr(value=v), st))
            continue
        if last:
            pas = lambda: [ast.copy_location(ast.Pass(), st)]
            if isinstance(st, ast.If):
                st.body = _convert_returns(st.body, mode, target, True) or pas()
                st.orelse = _convert_returns(st.orelse, mode, target, True)
            elif isinstance(st, ast.With):
                st.body = _convert_returns(st.body, mode, target, True) or pas()
            elif isinstance(st, ast.Try):
                st.body = _convert_returns(st.body, mode, target, True) or pas()
                st.orelse = _convert_returns(st.orelse, mode, target, True)
                for h in st.handlers:
                    h.body = _convert_returns(h.body, mode, target, True) or pas()
        out.append(st)
    return out



class _Renamer(ast.NodeTransformer):
    def __init__(self, names, exprs):
        self.names = names      # local name -> new local name
        self.exprs = exprs      # parameter name -> expression replacing its reads

    def visit_Name(self, node):
        if node.id in self.exprs and isinstance(node.ctx, ast.Load):
            return ast.copy_location(copy.deepcopy(self.exprs[node.id]), node)
        if node.id in self.names:
            return ast.copy_location(ast.Name(id=self.names[node.id], ctx=node.ctx), node)
        return node

    def visit_ExceptHandler(self, node):
        self.generic_visit(node)
        if node.name and node.name in self.names:
            node.name = self.names[node.name]
        return node


class _ModuleInliner(object):
    def __init__(self, modname, tree, known):
        self.modname = modname
        self.tree = tree
        self.known = known
        self.counter = 0
        self.expanded = {}      # helper qualname -> number of expansions
        self.refused = {}       # helper qualname -> reason
        self.changed = set()    # qualnames of functions that received an expansion
        self.classes = dict((n.name, n) for n in tree.body if isinstance(n, ast.ClassDef))

    # -- candidates ------------------------------------------------------------------------------------------
    def _is_new_private(self, qual, name):
        if not name.startswith("_") or (name.startswith("__") and name.endswith("__")):
            return False
        return ("%s.%s" % (self.modname, qual)) not in self.known

    def module_helpers(self):
        out = {}
        for n in self.tree.body:
            if isinstance(n, ast.FunctionDef) and self._is_new_private(n.name, n.name) and _helper_kind(n, False):
                out[n.name] = _Helper(n, "function", None)
        return out

    def class_helpers(self, cls, seen=None):
        """name -> helper, own methods first then those of base classes of the same module (single underscore only)."""
        seen = seen or set()
        out = {}
        if cls.name in seen:
            return out
        seen.add(cls.name)
        for m in cls.body:
            if isinstance(m, ast.FunctionDef) and self._is_new_private("%s.%s" % (cls.name, m.name), m.name):
                kind = _helper_kind(m, True)
                if kind:
                    out[m.name] = _Helper(m, kind, cls)
        own = set(m.name for m in cls.body if isinstance(m, (ast.FunctionDef, ast.AsyncFunctionDef)))
        for b in cls.bases:
            if isinstance(b, ast.Name) and b.id in self.classes:
                for k, h in self.class_helpers(self.classes[b.id], seen).items():
                    if k not in out and k not in own and not k.startswith("__"):
                        out[k] = h
        return out

    # -- driver ----------------------------------------------------------------------------------------------
    def run(self):
        mh = self.module_helpers()
        for _round in range(6):
            progress = False
            for n in self.tree.body:
                if isinstance(n, ast.FunctionDef):
                    progress |= self.expand_in(n, None, n.name, mh, {})
                elif isinstance(n, ast.ClassDef):
                    ch = self.class_helpers(n)
                    for m in n.body:
                        if isinstance(m, ast.FunctionDef):
                            progress |= self.expand_in(m, n, "%s.%s" % (n.name, m.name), mh, ch)
            if not progress:
                break
        self.prune(mh)
        return self.tree

    def prune(self, mh):
        """Drops the helpers nothing refers to any more."""
        def referenced(name, cls_name):
            alt = _mangled(cls_name, name)
            for n in ast.walk(self.tree):
                if isinstance(n, ast.Name) and n.id in (name, alt):
                    return True
                if isinstance(n, ast.Attribute) and n.attr in (name, alt):
                    return True
                if isinstance(n, ast.Constant) and isinstance(n.value, str) and n.value in (name, alt):
                    return True
            return False
        for name, h in list(mh.items()):
            if self.expanded.get(name) and not referenced(name, None):
                self.tree.body.remove(h.fn)
        for cls in self.classes.values():
            for m in list(cls.body):
                q = "%s.%s" % (cls.name, getattr(m, "name", ""))
                if isinstance(m, ast.FunctionDef) and self.expanded.get(q) and not referenced(m.name, cls.name):
                    cls.body.remove(m)
                    if not cls.body:
                        cls.body.append(ast.Pass())

    # -- one host function -----------------------------------------------------------------------------------
    def expand_in(self, host, cls, qual, mh, ch):
        progress = False
        for _k in range(40):
            if not self._expand_one(host, cls, qual, mh, ch):
                break
            progress = True
        if progress:
            self.changed.add(qual)
            fold_single_use_locals(host, only=self._temps(host))
            renumber(host)
        return progress

    @staticmethod
    def _temps(host):
        return set(n.id for n in ast.walk(host) if isinstance(n, ast.Name) and getattr(n, "_inl_temp", False))

    def _closures(self, host):
        out = {}
        for st in host.body:
            if isinstance(st, ast.FunctionDef) and not st.decorator_list:
                # only called, never passed around
                uses = [n for n in ast.walk(host) if isinstance(n, ast.Name) and n.id == st.name]
                called = [n for n in ast.walk(host) if isinstance(n, ast.Call) and isinstance(n.func, ast.Name) and n.func.id == st.name]
                if uses and len(uses) == len(called) and not any(
                        isinstance(n, ast.Name) and n.id == st.name for n in ast.walk(st)):
                    out[st.name] = _Helper(st, "closure", None)
        return out

    def _resolve(self, call, host, cls, mh, ch, closures, host_bound):
        f = call.func
        if isinstance(f, ast.Name):
            if f.id in closures:
                return closures[f.id], None
            if f.id in mh and f.id not in host_bound:
                return mh[f.id], None
            return None, None
        if isinstance(f, ast.Attribute) and isinstance(f.value, ast.Name) and cls is not None:
            h = ch.get(f.attr)
            if h is None:
                return None, None
            if f.value.id == "self" and host.args.args and host.args.args[0].arg == "self":
                return h, ("bound" if h.kind == "method" else "static")
            if f.value.id == cls.name or (h.owner is not None and f.value.id == h.owner.name):
                return h, ("unbound" if h.kind == "method" else "static")
        return None, None

    def _expand_one(self, host, cls, qual, mh, ch):
        closures = self._closures(host)
        host_bound = names_bound(host)
        for owner, field, block in list(_stmt_lists(host)):
            if isinstance(owner, (ast.FunctionDef, ast.AsyncFunctionDef, ast.ClassDef)) and owner is not host:
                continue
            for idx, st in enumerate(block):
                exprs = _header_exprs(st)
                if not exprs:
                    continue
                for call in [m for e in exprs for m, _c in eval_order(e) if isinstance(m, ast.Call)]:
                    helper, how = self._resolve(call, host, cls, mh, ch, closures, host_bound)
                    if helper is None or helper.fn is host:
                        continue
                    hq = helper.fn.name if helper.owner is None else "%s.%s" % (helper.owner.name, helper.fn.name)
                    try:
                        new = self._expand_call(host, cls, block, idx, st, exprs, call, helper, how)
                    except _NoInline as ex:
                        self.refused[hq] = str(ex)
                        continue
                    block[idx:idx + 1] = new
                    if helper.kind == "closure" and not any(
                            isinstance(n, ast.Name) and n.id == helper.fn.name for n in ast.walk(host) if n is not helper.fn):
                        host.body.remove(helper.fn)
                    self.expanded[hq] = self.expanded.get(hq, 0) + 1
                    return True
        return False

    def _expand_call(self, host, cls, block, idx, st, exprs, call, helper, how):
        fn = helper.fn
        _body_ok(fn)
        if helper.kind == "function" and cls is not None:
            for n in ast.walk(fn):
                nm = n.attr if isinstance(n, ast.Attribute) else (n.id if isinstance(n, ast.Name) else None)
                if nm and nm.startswith("__") and not nm.endswith("__"):
                    raise _NoInline("private name would be mangled differently")
        if helper.owner is not None and cls is not None and helper.owner is not cls:
            for n in ast.walk(fn):
                if isinstance(n, ast.Attribute) and n.attr.startswith("__") and not n.attr.endswith("__"):
                    raise _NoInline("private name of another class")
        if any(k.arg is None for k in call.keywords) or any(isinstance(a, ast.Starred) for a in call.args):
            raise _NoInline("star arguments")
        ok, _cond = _position_of(call, exprs)
        if not ok:
            raise _NoInline("call not evaluated first / unconditionally")
        # the call's own receiver must be a plain name (self / the class)
        # -- how is the value used?
        if isinstance(st, ast.Expr) and st.value is call:
            mode, target, keep = "drop", None, None
        elif isinstance(st, ast.Return) and st.value is call:
            mode, target, keep = "return", None, None
        elif isinstance(st, ast.Assign) and st.value is call and len(st.targets) == 1 and isinstance(st.targets[0], ast.Name):
            mode, target, keep = "assign", st.targets[0], None
        else:
            self.counter += 1
            tname = "%s__r%d" % (fn.name.strip("_") or "r", self.counter)
            target = ast.Name(id=tname, ctx=ast.Store())
            target._inl_temp = True
            mode, keep = "assign", st
        body = copy.deepcopy(_strip_doc(fn.body))
        if mode == "return":
            if not _leaves_function(body):
                body.append(ast.copy_location(ast.Return(value=ast.Constant(value=None)), st))
        else:
            guards_nested(body)
            if mode == "assign":
                body = _explicit_returns(body, st)
            if not _returns_tail_only(body):
                raise _NoInline("a return is not in tail position")
        # -- parameters
        params = [a.arg for a in fn.args.args]
        defaults = dict(zip(params[len(params) - len(fn.args.defaults):], fn.args.defaults))
        for a, d in zip(fn.args.kwonlyargs, fn.args.kw_defaults):
            params.append(a.arg)
            if d is not None:
                defaults[a.arg] = d
        args = list(call.args)
        bound = {}
        order = []
        pos_params = [a.arg for a in fn.args.args]
        if helper.kind == "method":
            if how == "bound":
                bound[pos_params[0]] = copy.deepcopy(call.func.value)
            else:
                if not args:
                    raise _NoInline("unbound call without receiver")
                bound[pos_params[0]] = args.pop(0)
            order.append(pos_params[0])
            pos_params = pos_params[1:]
        if len(args) > len(pos_params):
            raise _NoInline("too many arguments")
        for p, a in zip(pos_params, args):
            bound[p] = a
            order.append(p)
        for k in call.keywords:
            if k.arg in bound or k.arg not in params:
                raise _NoInline("bad keyword")
            bound[k.arg] = k.value
            order.append(k.arg)
        for p in params:
            if p not in bound:
                if p not in defaults:
                    raise _NoInline("missing argument")
                bound[p] = copy.deepcopy(defaults[p])
                order.append(p)
        # -- names
        holder = ast.Module(body=body, type_ignores=[])
        rebinds = set()
        h_bound = set()
        for n in ast.walk(holder):
            if isinstance(n, ast.Name) and isinstance(n.ctx, (ast.Store, ast.Del)):
                h_bound.add(n.id)
                if n.id in params:
                    rebinds.add(n.id)
            elif isinstance(n, ast.ExceptHandler) and n.name:
                h_bound.add(n.name)
            elif isinstance(n, (ast.Import, ast.ImportFrom)):
                raise _NoInline("import in helper")
        if helper.kind == "closure":
            # a closure reads the caller's locals on purpose; only what it binds itself is private to it
            where = host.body.index(fn)
            host.body.remove(fn)
            host_names = names_used(host) - set([fn.name])
            host.body.insert(where, fn)
            free = set()
        else:
            host_names = names_used(host)
            free = set(n.id for n in ast.walk(holder) if isinstance(n, ast.Name)) - h_bound - set(params)
        clash = free & names_bound(host)
        if clash:
            raise _NoInline("free name %s is a local of the caller" % sorted(clash)[0])
        self.counter += 1
        suffix = "__i%d" % self.counter
        rename, subst, pre = {}, {}, []
        inout = None
        for p in order:
            a = bound[p]
            atomic = isinstance(a, ast.Constant) or (isinstance(a, ast.Name)) or \
                (isinstance(a, ast.UnaryOp) and isinstance(a.operand, ast.Constant))
            if atomic and p not in rebinds:
                subst[p] = a
                continue
            if p in rebinds and isinstance(a, ast.Name) and mode == "assign" and keep is None and isinstance(target, ast.Name) \
                    and target.id == a.id and inout is None and not _inside_try_with_handlers(host, st) \
                    and sum(1 for q in order if isinstance(bound[q], ast.Name) and bound[q].id == a.id) == 1:
                # v = helper(.., v, ..): the caller's own variable plays the parameter (it is overwritten by the result)
                rename[p] = a.id
                inout = p
                continue
            new = p if (p not in host_names and p not in rename.values()) else p + suffix
            rename[p] = new
            tnode = ast.Name(id=new, ctx=ast.Store())
            if p not in rebinds:
                tnode._inl_temp = True
            pre.append(ast.copy_location(ast.Assign(targets=[tnode], value=a), st))
        if inout is not None:
            # exact only when the result IS that parameter on every path, or the variable is dead otherwise: require
            # every return to return the parameter itself
            rets = [n for n in ast.walk(holder) if isinstance(n, ast.Return)]
            if not rets or not all(isinstance(r.value, ast.Name) and r.value.id == inout for r in rets) or not _leaves_function(body):
                raise _NoInline("in-out parameter not returned on every path")
        unified = None
        if mode == "assign" and keep is None and inout is None and isinstance(target, ast.Name):
            # `t = helper(...)` where the helper returns one and the same local on every path: that local is `t`
            rets = [n for n in ast.walk(holder) if isinstance(n, ast.Return)]
            ids = set(r.value.id if isinstance(r.value, ast.Name) else None for r in rets)
            arg_names = set(m.id for a in bound.values() for m in ast.walk(a) if isinstance(m, ast.Name))
            if len(ids) == 1 and None not in ids:
                r = ids.pop()
                if r in h_bound and r not in params and target.id not in arg_names and target.id not in h_bound - set([r]) \
                        and not _inside_try_with_handlers(host, st):
                    unified = r
        for nme in sorted(h_bound - set(params)):
            if nme == unified:
                if nme != target.id:
                    rename[nme] = target.id
                continue
            if nme in host_names or nme in rename.values():
                rename[nme] = nme + suffix
        # a substituted expression must not be captured by a helper local of the same name
        for p, a in subst.items():
            if isinstance(a, ast.Name) and a.id in (h_bound - set(params)) and a.id not in rename:
                rename[a.id] = a.id + suffix
        _Renamer(rename, {}).visit(holder)
        _Renamer({}, subst).visit(holder)
        body = holder.body
        tgt = target
        if inout is not None:
            tgt = ast.Name(id=rename[inout], ctx=ast.Store())
        if mode != "return":
            body = _convert_returns(body, mode, tgt, True)
        out = pre + body
        if keep is not None:
            use = ast.Name(id=target.id, ctx=ast.Load())
            use._inl_temp = True
            _replace_node(keep, call, use)
            out.append(keep)
        for s in out:
            for n in ast.walk(s):
                if not hasattr(n, "lineno") and isinstance(n, (ast.stmt, ast.expr)):
                    ast.copy_location(n, st)
        if not out:
            out = [ast.copy_location(ast.Pass(), st)]
        return out


def _inside_try_with_handlers(host, st):
    for n in ast.walk(host):
        if isinstance(n, ast.Try) and n.handlers:
            for s in n.body:
                if any(m is st for m in ast.walk(s)):
                    return True
    return False


def renumber(fn):
    """Gives every node of the function a position that grows with evaluation order (one line per statement, columns in
    evaluation order), starting at the function's own line: positions stay usable as an order after an expansion."""
    line = [getattr(fn, "lineno", 1)]

    def owned(st):
        todo = [c for c in ast.iter_child_nodes(st) if not isinstance(c, (ast.stmt, ast.ExceptHandler))]
        out = []
        while todo:
            n = todo.pop()
            out.append(n)
            todo.extend(ast.iter_child_nodes(n))
        return out

    def stmt(st):
        line[0] += 1
        st.lineno = st.end_lineno = line[0]
        st.col_offset = st.end_col_offset = 0
        order = {}
        for e in ast.iter_child_nodes(st):
            if isinstance(e, ast.expr):
                for n, _c in eval_order(e):
                    order.setdefault(id(n), len(order) + 1)
        for n in owned(st):
            if "lineno" in getattr(n, "_attributes", ()):
                n.lineno = n.end_lineno = line[0]
                n.col_offset = n.end_col_offset = order.get(id(n), 0)
        for field in ("body", "orelse"):
            for s in getattr(st, field, None) or []:
                if isinstance(s, ast.stmt):
                    stmt(s)
        for h in getattr(st, "handlers", None) or []:
            line[0] += 1
            h.lineno = h.end_lineno = line[0]
            h.col_offset = h.end_col_offset = 0
            for n in ([h.type] if h.type is not None else []):
                for m in ast.walk(n):
                    m.lineno = m.end_lineno = line[0]
                    m.col_offset = m.end_col_offset = 0
            for s in h.body:
                stmt(s)
        for s in getattr(st, "finalbody", None) or []:
            stmt(s)

    for s in fn.body:
        stmt(s)
    return fn


# ---------------------------------------------------------------------------------------------------------------
# ---------------------------------------------------------------------------------------------------------------
# the normalised view of a Source

_CACHE = {}


def nsource(src):
    """A `Source` with the same interface whose trees have the new private helpers expanded (see the module text).
    `.raw` is the original, `.expanded[module]` / `.refused[module]` / `.changed[module]` say what was done."""
    key = id(src)
    hit = _CACHE.get(key)
    if hit is not None and hit.raw is src:
        return hit
    ns = copy.copy(src)
    ns.raw = src
    ns.trees = {}
    ns.expanded, ns.refused, ns.changed = {}, {}, {}
    known = known_functions()
    for name, tree in src.trees.items():
        if known is None:
            ns.trees[name] = tree
            continue
        try:
            inl = _ModuleInliner(name, copy.deepcopy(tree), known)
            ns.trees[name] = inl.run()
            ns.expanded[name], ns.refused[name], ns.changed[name] = inl.expanded, inl.refused, inl.changed
        except RecursionError:
            ns.trees[name] = tree
    _CACHE.clear()
    _CACHE[key] = ns
    return ns


def clone(fn):
    """A private copy of a function an extractor wants to canonicalise further."""
    return copy.deepcopy(fn) if fn is not None else None
