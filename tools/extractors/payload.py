"""
Facts about the message construction API of jsonrpclib/jsonrpc.py (C14).
"""
import ast

from __main__ import Fact, const_num, lean_str

PROPERTIES = ["C14"]


def _tenths(x):
    if x is None:
        return None
    t = round(x * 10)
    return t if abs(t - x * 10) < 1e-9 and t >= 0 else None


def _thresholds(fn):
    """`self.version < <a>` and `self.version >= <b>` in Payload.request, in tenths."""
    lt = ge = None
    for n in ast.walk(fn):
        if isinstance(n, ast.Compare) and len(n.ops) == 1 and isinstance(n.left, ast.Attribute) and n.left.attr == "version":
            v = _tenths(const_num(n.comparators[0]))
            if isinstance(n.ops[0], ast.Lt):
                lt = v
            elif isinstance(n.ops[0], ast.GtE):
                ge = v
    if lt is None or ge is None:
        return None
    return lt, ge


def _id_test(fn):
    """
    The test deciding that an id must be generated:
      'none-or-empty-string'  for `self.id is None or self.id == ""`
      'falsy'                 for `not self.id`
    """
    for n in ast.walk(fn):
        if isinstance(n, ast.If):
            assigns_uuid = any(isinstance(m, ast.Attribute) and m.attr == "uuid4" for s in n.body for m in ast.walk(s))
            if not assigns_uuid:
                continue
            t = n.test
            if isinstance(t, ast.UnaryOp) and isinstance(t.op, ast.Not):
                return "falsy"
            if isinstance(t, ast.BoolOp) and isinstance(t.op, ast.Or) and len(t.values) == 2:
                a, b = t.values
                is_none = (isinstance(a, ast.Compare) and isinstance(a.ops[0], ast.Is)
                           and isinstance(a.comparators[0], ast.Constant) and a.comparators[0].value is None)
                eq_empty = (isinstance(b, ast.Compare) and isinstance(b.ops[0], ast.Eq)
                            and isinstance(b.comparators[0], ast.Constant) and b.comparators[0].value == "")
                if is_none and eq_empty:
                    return "none-or-empty-string"
            if isinstance(t, ast.Compare) and isinstance(t.ops[0], ast.In):
                c = t.comparators[0]
                if isinstance(c, (ast.Tuple, ast.List)) and sorted(repr(getattr(e, "value", "?")) for e in c.elts) == ["''", "None"]:
                    return "none-or-empty-string"
            return "other:" + ast.dump(t)[:80]
    return None


def facts(src):
    req = src.func("jsonrpc", "Payload.request")
    th = _thresholds(req) if req is not None else None
    idt = _id_test(req) if req is not None else None
    return [
        Fact("payloadThresholds", "Nat × Nat", None if th is None else "(%d, %d)" % th, ["C14"],
             "Payload.request: `version < a` forces params, `version >= b` adds jsonrpc (tenths)", json_value=th),
        Fact("payloadIdTest", "String", None if idt is None else lean_str(idt), ["C14"],
             "Payload.request: the test that decides to generate an id", json_value=idt),
    ]
