"""
Facts about the message construction API of jsonrpclib/jsonrpc.py (C14).
"""
import ast

from __main__ import Fact, const_num, lean_str

import importlib.util
import os
import sys


def _load_norm():
    """tools/extractors/normalise_rpc.py, loaded once per process under a name of its own (sys.path is left alone)."""
    name = "jrv_normalise_rpc"
    if name not in sys.modules:
        spec = importlib.util.spec_from_file_location(
            name, os.path.join(os.path.dirname(os.path.abspath(__file__)), "normalise_rpc.py"))
        mod = importlib.util.module_from_spec(spec)
        sys.modules[name] = mod
        spec.loader.exec_module(mod)
    return sys.modules[name]


norm = _load_norm()


PROPERTIES = ["C14"]


def _tenths(x):
    if x is None:
        return None
    t = round(x * 10)
    return t if abs(t - x * 10) < 1e-9 and t >= 0 else None


def _is_version(e):
    return (isinstance(e, ast.Attribute) and e.attr == "version") or (isinstance(e, ast.Name) and e.id == "version")


def _thresholds(fn):
    """`self.version < <a>` and `self.version >= <b>` in Payload.request, in tenths (also spelt `<a> > self.version`,
    `<b> <= self.version`, `not self.version < <b>`)."""
    lt = ge = None
    negated = set()
    for n in ast.walk(fn):
        if isinstance(n, ast.UnaryOp) and isinstance(n.op, ast.Not) and isinstance(n.operand, ast.Compare):
            negated.add(id(n.operand))
    for n in ast.walk(fn):
        if isinstance(n, ast.Compare) and len(n.ops) == 1:
            op = type(n.ops[0])
            if _is_version(n.left):
                v = _tenths(const_num(n.comparators[0]))
            elif _is_version(n.comparators[0]):
                v = _tenths(const_num(n.left))
                op = {ast.Lt: ast.Gt, ast.Gt: ast.Lt, ast.LtE: ast.GtE, ast.GtE: ast.LtE}.get(op, op)
            else:
                continue
            if id(n) in negated:
                op = {ast.Lt: ast.GtE, ast.GtE: ast.Lt}.get(op, None)
            if op is ast.Lt:
                lt = v
            elif op is ast.GtE:
                ge = v
    if lt is None or ge is None:
        return None
    return lt, ge


def _calls_uuid_module(stmts):
    """Some call in the statements goes into the `uuid` module (uuid.uuid4(), uuid.uuid1(), uuid4() imported from it …)."""
    for s in stmts:
        for m in ast.walk(s):
            if isinstance(m, ast.Call):
                f = m.func
                while isinstance(f, (ast.Attribute, ast.Call)):
                    if isinstance(f, ast.Attribute) and f.attr.startswith("uuid"):
                        return True
                    f = f.value if isinstance(f, ast.Attribute) else f.func
                if isinstance(f, ast.Name) and f.id.startswith("uuid"):
                    return True
    return False


def _id_test(fn):
    """
    The test deciding that an id must be generated:
      'none-or-empty-string'  for `self.id is None or self.id == ""`
      'falsy'                 for `not self.id`
    Read on the canonical form: `if a: X elif b: X` is `if a or b: X`, `if c: pass else: X` is `if not c: X`.
    """
    fn = norm.clone(fn)
    norm.negation_normal(fn)
    norm.merge_duplicate_branches(fn)
    for n in ast.walk(fn):
        if isinstance(n, ast.If):
            if not _calls_uuid_module(n.body):
                continue
            t = n.test
            if isinstance(t, ast.UnaryOp) and isinstance(t.op, ast.Not):
                return "falsy"
            if isinstance(t, ast.BoolOp) and isinstance(t.op, ast.Or) and len(t.values) == 2:
                a, b = t.values
                def _is_none(x):
                    return (isinstance(x, ast.Compare) and isinstance(x.ops[0], ast.Is)
                            and isinstance(x.comparators[0], ast.Constant) and x.comparators[0].value is None)

                def _eq_empty(x):
                    return (isinstance(x, ast.Compare) and isinstance(x.ops[0], ast.Eq)
                            and any(isinstance(y, ast.Constant) and y.value == "" for y in [x.left, x.comparators[0]]))
                if (_is_none(a) and _eq_empty(b)) or (_is_none(b) and _eq_empty(a)):
                    return "none-or-empty-string"
            if isinstance(t, ast.Compare) and isinstance(t.ops[0], ast.In):
                c = t.comparators[0]
                if isinstance(c, (ast.Tuple, ast.List)) and sorted(repr(getattr(e, "value", "?")) for e in c.elts) == ["''", "None"]:
                    return "none-or-empty-string"
            return "other:" + ast.dump(t)[:80]
    return None


def _forced_id_test(fn):
    """How Fault.dump/Fault.response decide to apply the forced id: 'truthy' for `if rpcid:`, 'not-none' for
    `if rpcid is not None:`, else 'other:…'; None when there is no such `if`."""
    if fn is None:
        return None
    # canonical form: `if rpcid is None: pass else: store` and `if not (rpcid is None): store` are `if rpcid is not None: store`
    fn = norm.negation_normal(norm.clone(fn))
    for n in ast.walk(fn):
        if isinstance(n, ast.If):
            stores = any(isinstance(m, ast.Attribute) and m.attr == "rpcid" and isinstance(m.ctx, ast.Store)
                         for st in n.body for m in ast.walk(st))
            if not stores:
                continue
            t = n.test
            if isinstance(t, ast.Name) and t.id == "rpcid":
                return "truthy"
            if isinstance(t, ast.Compare) and isinstance(t.left, ast.Name) and t.left.id == "rpcid" and \
                    isinstance(t.ops[0], ast.IsNot) and isinstance(t.comparators[0], ast.Constant) and t.comparators[0].value is None:
                return "not-none"
            return "other:" + ast.dump(t)[:60]
    return None


def _response_result(fn):
    """What Payload.response binds to the "result" member: 'parameter' when it is the `result` parameter itself."""
    if fn is None:
        return None
    found = None
    for n in (m for m, _c in norm.eval_order(fn)):      # evaluation order: the last store into the member wins
        if isinstance(n, ast.Dict):
            for k, v in zip(n.keys, n.values):
                if isinstance(k, ast.Constant) and k.value == "result":
                    found = v
        elif isinstance(n, ast.Assign) and len(n.targets) == 1 and isinstance(n.targets[0], ast.Subscript):
            sl = n.targets[0].slice
            if isinstance(sl, ast.Constant) and sl.value == "result":
                found = n.value
    if found is None:
        return None
    if isinstance(found, ast.Name) and found.id == "result":
        return "parameter"
    return "other:" + ast.dump(found)[:60]


def facts(src):
    src = norm.nsource(src)
    req = src.func("jsonrpc", "Payload.request")
    th = _thresholds(req) if req is not None else None
    idt = _id_test(req) if req is not None else None
    return [
        Fact("payloadThresholds", "Nat × Nat", None if th is None else "(%d, %d)" % th, ["C14"],
             "Payload.request: `version < a` forces params, `version >= b` adds jsonrpc (tenths)", json_value=th),
        Fact("payloadIdTest", "String", None if idt is None else lean_str(idt), ["C14"],
             "Payload.request: the test that decides to generate an id (the id comes from a call into the uuid module)", json_value=idt),
    ] + _more(src)


def _more(src):
    fd = _forced_id_test(src.func("jsonrpc", "Fault.dump"))
    fr = _forced_id_test(src.func("jsonrpc", "Fault.response"))
    rr = _response_result(src.func("jsonrpc", "Payload.response"))
    return [
        Fact("faultForcedIdTest", "String × String", None if fd is None or fr is None else "(%s, %s)" % (lean_str(fd), lean_str(fr)),
             ["C14"], "Fault.dump / Fault.response: the test under which the forced rpcid replaces the Fault's own", json_value=[fd, fr]),
        Fact("payloadResponseResult", "String", None if rr is None else lean_str(rr), ["C14"],
             "Payload.response: the value bound to the \"result\" member", json_value=rr),
    ]
