"""
Source pins: a normalised-AST digest of every function and class-level assignment of the package.

Not an obligation and never an alarm: the digests are compared with tools/model_pins.json (recorded when the models
were last validated against the source).  When a function in a file a property is anchored in has changed, the
check of that property runs its generators with the *thorough* budgets even in the quick tier (core.Ctx.escalated),
because a changed source is exactly when the correspondence deserves a deeper look.  A harmless rewrite therefore
costs time, not a verdict.
"""
import ast
import hashlib

from __main__ import Fact

PROPERTIES = []


def _digest(node):
    # docstrings and line numbers do not count
    node = ast.parse(ast.unparse(node))
    for n in ast.walk(node):
        body = getattr(n, "body", None)
        if isinstance(body, list) and body and isinstance(body[0], ast.Expr) and isinstance(body[0].value, ast.Constant) \
                and isinstance(body[0].value.value, str):
            n.body = body[1:] or [ast.Pass()]
    return hashlib.sha1(ast.dump(node, annotate_fields=False, include_attributes=False).encode("utf-8")).hexdigest()[:12]


def pins(src):
    out = {}
    for mod, tree in sorted(src.trees.items()):
        for n in tree.body:
            if isinstance(n, ast.FunctionDef):
                out["%s.%s" % (mod, n.name)] = _digest(n)
            elif isinstance(n, ast.ClassDef):
                for m in n.body:
                    if isinstance(m, ast.FunctionDef):
                        out["%s.%s.%s" % (mod, n.name, m.name)] = _digest(m)
                    elif isinstance(m, ast.Assign):
                        out["%s.%s.<assign:%s>" % (mod, n.name, ast.unparse(m.targets[0]))] = _digest(m)
            elif isinstance(n, ast.Assign):
                out["%s.<assign:%s>" % (mod, ast.unparse(n.targets[0]))] = _digest(n)
    return out


def facts(src):
    p = pins(src)
    return [Fact("sourcePinCount", "Nat", str(len(p)), [], "number of pinned functions/assignments (digests are in Generated.json)",
                 json_value=p)]
