"""
Facts about jsonrpclib/threadpool.py ThreadPool (C09, C10, C11): lock discipline of the shared counters and the
thread list, growth / spawn / retirement rules as (operator, left, right), the structure of join(), the stores to the
pending-task counter, the sentinel test of clear(), constructor defaults.

Every method is read through tools/extractors/normalise.py: helpers of the class that the model has no step for are
inlined where they are called, `acquire(); try: ... finally: release()` is a `with`, aliases of the lock / the queue are
resolved, and the rules are computed from the conditions that DOMINATE a statement (enclosing ifs, guard clauses,
short-circuit operands) rather than from the shape of one `if`.  The facts mean what they meant before.
"""
import ast
import importlib.util
import os

from __main__ import Fact, lean_str


def _load_normaliser():
    path = os.path.join(os.path.dirname(os.path.abspath(__file__)), "normalise.py")
    spec = importlib.util.spec_from_file_location("extractors_normalise_shared", path)
    mod = importlib.util.module_from_spec(spec)
    spec.loader.exec_module(mod)
    return mod


N = _load_normaliser()

PROPERTIES = ["C09", "C10", "C11"]

# the methods the pool model has steps for: never inlined, every other method of the class that one of them calls is
ANCHORS = ("__init__", "start", "__start_thread", "stop", "enqueue", "clear", "join", "__run")
EVENT_ANCHORS = ("__init__", "data", "exception", "clear", "is_set", "set", "raise_exception", "wait")

SHARED = ("__nb_threads", "__nb_active_threads", "__nb_pending_task", "_threads")
ALL3 = ["C09", "C10", "C11"]


def _self_attr(node):
    """`self.<name>` -> name (class-private names are returned as written, e.g. `__lock`)."""
    if isinstance(node, ast.Attribute) and isinstance(node.value, ast.Name) and node.value.id == "self":
        return node.attr
    return None


def _is_lock_with(node):
    return isinstance(node, ast.With) and any(_self_attr(it.context_expr) == "__lock" for it in node.items)


def _accesses(fn):
    """(attr, kind, lineno, locked) for every access to a shared name in a method; kind in load/store/del/aug."""
    out = []

    def visit(node, locked):
        if _is_lock_with(node):
            for it in node.items:
                visit(it.context_expr, locked)
            for b in node.body:
                visit(b, True)
            return
        if isinstance(node, ast.AugAssign) and _self_attr(node.target) in SHARED:
            out.append((_self_attr(node.target), "aug", N.src_line(node), locked))
            visit(node.value, locked)
            return
        if isinstance(node, ast.Attribute) and _self_attr(node) in SHARED:
            kind = {"Load": "load", "Store": "store", "Del": "del"}[type(node.ctx).__name__]
            out.append((node.attr, kind, N.src_line(node), locked))
            return
        if isinstance(node, ast.Delete):
            for t in node.targets:
                # `del self._threads[:]` : the attribute itself is loaded, the effect is a deletion
                if isinstance(t, ast.Subscript) and _self_attr(t.value) in SHARED:
                    out.append((_self_attr(t.value), "del", N.src_line(node), locked))
                else:
                    visit(t, locked)
            return
        for ch in ast.iter_child_nodes(node):
            visit(ch, locked)

    for st in fn.body:
        visit(st, False)
    return out


def _local_aliases(fn):
    """
    {local name: (self attribute, line)} for the locals of `fn` that are assigned exactly once, from `self.<attr>`
    (a hoisted attribute read: `nb = self.__nb_threads`).  A name that is assigned twice, is a parameter, or is the
    target of a for/with/augmented assignment is not an alias.
    """
    counts, alias = {}, {}
    params = {a.arg for a in fn.args.args + fn.args.kwonlyargs}
    for n in ast.walk(fn):
        targets = []
        if isinstance(n, ast.Assign):
            targets = n.targets
        elif isinstance(n, (ast.AugAssign, ast.AnnAssign, ast.For)):
            targets = [n.target]
        elif isinstance(n, ast.With):
            targets = [i.optional_vars for i in n.items if i.optional_vars is not None]
        elif isinstance(n, ast.NamedExpr):
            targets = [n.target]
        for t in targets:
            for m in ast.walk(t):
                if isinstance(m, ast.Name):
                    counts[m.id] = counts.get(m.id, 0) + 1
        if isinstance(n, ast.Assign) and len(n.targets) == 1 and isinstance(n.targets[0], ast.Name) \
                and _self_attr(n.value) is not None:
            alias[n.targets[0].id] = (_self_attr(n.value), n.lineno)
    return {k: v for k, v in alias.items() if counts.get(k) == 1 and k not in params}


def _stores_between(fn, attr, lo, hi):
    """Is `self.<attr>` stored to on a line in (lo, hi)?  (a hoisted read must not have gone stale)"""
    for n in ast.walk(fn):
        tgt = None
        if isinstance(n, ast.AugAssign):
            tgt = [n.target]
        elif isinstance(n, ast.Assign):
            tgt = n.targets
        for t in tgt or []:
            if _self_attr(t) == attr and lo < n.lineno < hi:
                return True
    return False


def _operand(node, fn):
    """`self.<attr>` or a single-assignment local alias of it (not stale at the point of use) -> attr."""
    a = _self_attr(node)
    if a:
        return a
    if fn is not None and isinstance(node, ast.Name):
        al = _local_aliases(fn).get(node.id)
        if al is not None and al[1] < node.lineno and not _stores_between(fn, al[0], al[1], node.lineno):
            return al[0]
    return None


def _cmp(node, fn=None):
    """`self.a <op> self.b` -> (op, a, b) with private prefixes stripped; an operand may also be a local that is
    assigned once from `self.<attr>` (`nb = self.__nb_threads; if nb >= self._max_threads`)."""
    if isinstance(node, ast.Compare) and len(node.ops) == 1:
        a, b = _operand(node.left, fn), _operand(node.comparators[0], fn)
        if a and b:
            op = type(node.ops[0]).__name__
            if op in ("Lt", "LtE"):
                # one spelling per comparison: `a < b` is `b > a`
                op, a, b = {"Lt": "Gt", "LtE": "GtE"}[op], b, a
            return (op, a.lstrip("_"), b.lstrip("_"))
    return None


def _first_if(fn, pred):
    for n in ast.walk(fn):
        if isinstance(n, ast.If) and pred(n):
            return n
    return None


def _calls(node, name):
    for n in ast.walk(node):
        if isinstance(n, ast.Call) and isinstance(n.func, ast.Attribute) and n.func.attr == name:
            return True
    return False


def _triple(t):
    return "(%s, %s, %s)" % tuple(lean_str(x) for x in t)


def facts(src):
    out = []
    cls = src.klass("threadpool", "ThreadPool")
    # normalised methods; a helper that is inlined at every call site is analysed there, not as a method of its own
    methods = N.normalised_methods(cls, ANCHORS, module=src.module("threadpool"))

    # ---- lock discipline table -------------------------------------------------------------
    table = []
    for name, fn in methods.items():
        if name == "__init__":
            continue
        for attr, kind, line, locked in _accesses(fn):
            table.append({"method": name, "attr": attr, "kind": kind, "line": line, "locked": locked})
    unlocked = sorted(set((r["method"], r["attr"].lstrip("_"), r["kind"]) for r in table if not r["locked"]))
    found = bool(table)
    out.append(Fact(
        "poolUnlockedAccesses", "List (String × String × String)",
        None if not found else "[" + ", ".join(_triple(t) for t in unlocked) + "]",
        ALL3, "ThreadPool: accesses (method, attribute, kind) to nb_threads / nb_active_threads / nb_pending_task / _threads "
              "that are NOT inside `with self.__lock` (each is a separate racy step of the model)",
        json_value={"unlocked": unlocked, "table": table}))

    # ---- stores to the pending counter -------------------------------------------------------
    stores = []
    for name, fn in methods.items():
        if name == "__init__":
            continue
        for n in ast.walk(fn):
            if isinstance(n, ast.AugAssign) and _self_attr(n.target) == "__nb_pending_task":
                stores.append((name.lstrip("_"), type(n.op).__name__))
            elif isinstance(n, ast.Assign) and any(_self_attr(t) == "__nb_pending_task" for t in n.targets):
                stores.append((name.lstrip("_"), "Assign"))
    stores.sort()
    out.append(Fact(
        "poolPendingStores", "List (String × String)",
        None if not stores else "[" + ", ".join("(%s, %s)" % (lean_str(a), lean_str(b)) for a, b in stores) + "]",
        ALL3, "ThreadPool: every store to nb_pending_task as (method, operator) — start() must not re-count pre-queued tasks",
        json_value=stores))

    # ---- growth rule (enqueue) and spawn guard (__start_thread) -----------------------------------
    # enqueue: the conditions under which control reaches `self.__start_thread()`, argument validation aside
    growth = None
    fn = methods.get("enqueue")
    if fn is not None:
        rules = set()
        for it in N.walk(fn):
            if it.kind in ("stmt", "test") and N.calls_in(it.node, attr="__start_thread"):
                lits = [N.positive(c) for c in it.conds if not c.is_validation]
                rules.add(_cmp(lits[0][0], fn) if len(lits) == 1 and lits[0][1] else None)
        if len(rules) == 1:
            growth = rules.pop()
    out.append(Fact("poolGrowthRule", "String × String × String", None if growth is None else _triple(growth),
                    ["C10", "C09"], "enqueue: a worker is started when <left> <op> <right>", json_value=growth))
    # __start_thread: `thread.start()` is reached exactly when a comparison of counters is false and the stop flag is not
    # set; everything that is not behind both tests is `return False`; every test and every counter access is made under
    # the lock
    spawn = None
    fn = methods.get("__start_thread")
    if fn is not None:
        items = N.walk(fn)
        sites = [it for it in items if it.kind == "stmt" and N.calls_in(it.node, attr="start")]
        if len(sites) == 1:
            refusal, flag = [], []
            for c in sites[0].conds:
                expr, pol = c
                if isinstance(expr, ast.Compare):
                    r = N.positive(N.Lit(expr, not pol))        # when does it refuse: the complement
                    refusal.append(_cmp(r[0], fn) if r[1] else None)
                elif isinstance(expr, ast.Call) and isinstance(expr.func, ast.Attribute) and expr.func.attr == "is_set" \
                        and not pol:
                    flag.append(c)
                else:
                    refusal.append(None)
            need = set(N.lit_key(c) for c in sites[0].conds)
            elsewhere = [it for it in items if it.kind == "stmt" and not need <= set(it.keys())]
            refuses = bool(elsewhere) and all(
                isinstance(it.node, ast.Pass) or (isinstance(it.node, ast.Return) and isinstance(it.node.value, ast.Constant)
                                                  and it.node.value.value is False) for it in elsewhere)
            tests_locked = all(it.locked for it in items if it.kind == "test")
            if len(refusal) == 1 and refusal[0] is not None and len(flag) == 1 and refuses and tests_locked \
                    and _accesses(fn) and all(a[3] for a in _accesses(fn)):
                spawn = refusal[0]
    out.append(Fact("poolSpawnRefusal", "String × String × String", None if spawn is None else _triple(spawn),
                    ["C10", "C11"], "__start_thread (entirely under the lock): refuses when <left> <op> <right>, and when the stop flag is set",
                    json_value=spawn))

    # ---- retirement rule (__run) ------------------------------------------------------------------
    # the conditions that dominate the `nb_threads -= 1` of a retiring worker: all of them comparisons of counters
    retire = None
    fn = methods.get("__run")
    if fn is not None:
        found = []
        for it in N.walk(fn):
            m = it.node
            if it.kind == "stmt" and isinstance(m, ast.AugAssign) and _self_attr(m.target) == "__nb_threads" \
                    and isinstance(m.op, ast.Sub) and it.conds:
                lits = [N.positive(c) for c in it.conds]
                parts = [_cmp(e, fn) if pol else None for e, pol in lits]
                if all(parts):
                    found.append(parts)
        if len(found) == 1:
            retire = found[0]
    out.append(Fact("poolRetireRule", "List (String × String × String)",
                    None if retire is None else "[" + ", ".join(_triple(t) for t in retire) + "]",
                    ["C10", "C09"], "worker loop: an idle worker retires when all of these comparisons hold", json_value=retire))

    # ---- join() structure -----------------------------------------------------------------------------
    join = None
    fn = methods.get("join")
    if fn is not None:
        params = [a.arg for a in fn.args.args[1:]]
        items = N.walk(fn, ())
        no_shortcut = not _calls(fn, "empty") and not _calls(fn, "qsize")
        untimed = guarded = ret_not_unfinished = False
        if params:
            k_none, k_some = "%s is None" % params[0], "%s is not None" % params[0]
            stmts = [it for it in items if it.kind == "stmt"]
            # join() : Queue.join(), then `return True`, both exactly when the timeout is None
            qjoins = [it for it in stmts if N.calls_in(it.node, attr="join")]
            trues = [it for it in stmts if isinstance(it.node, ast.Return) and isinstance(it.node.value, ast.Constant)
                     and it.node.value.value is True]
            untimed = bool(qjoins) and all(it.keys() == [k_none] for it in qjoins) and any(
                t.keys() == [k_none] and t.seq > qjoins[0].seq for t in trues)
            # join(t) : one timed wait, made exactly when the timeout is given and `unfinished_tasks` is non-zero
            waits = [it for it in items if N.calls_in(it.node, attr="wait")]
            if len(waits) == 1 and len(N.calls_in(fn, attr="wait")) == 1:
                lits = [N.positive(c) for c in waits[0].conds]
                rest = [(e, pol) for e, pol in lits if N.lit_key((e, pol)) != k_some]
                guarded = (len(rest) == 1 and len(lits) == 2 and rest[0][1] and isinstance(rest[0][0], ast.Attribute)
                           and rest[0][0].attr == "unfinished_tasks")
            # ... and answers `not unfinished_tasks`
            timed_returns = [it for it in stmts if isinstance(it.node, ast.Return) and k_some in it.keys()]
            ret_not_unfinished = bool(timed_returns) and all(
                it.keys() == [k_some] and isinstance(it.node.value, ast.UnaryOp) and isinstance(it.node.value.op, ast.Not)
                and any(isinstance(m, ast.Attribute) and m.attr == "unfinished_tasks" for m in ast.walk(it.node.value))
                for it in timed_returns)
        join = (no_shortcut, untimed, guarded, ret_not_unfinished)
    out.append(Fact("poolJoinShape", "Bool × Bool × Bool × Bool",
                    None if join is None else "(%s)" % ", ".join(str(b).lower() for b in join),
                    ["C11"], "join(): (no empty-queue shortcut, join() = Queue.join() then True, the timed wait is guarded by "
                             "`if unfinished_tasks`, join(t) returns `not unfinished_tasks`)", json_value=join))

    # ---- clear(): sentinel test before the decrement ------------------------------------------------------
    # every decrement of the pending counter in clear() is dominated by `<entry> is not self._done_event`
    clr = None
    fn = methods.get("clear")
    if fn is not None:
        decs = [it for it in N.walk(fn) if it.kind == "stmt" and isinstance(it.node, ast.AugAssign)
                and _self_attr(it.node.target) == "__nb_pending_task"]

        def not_sentinel(c):
            e, pol = N.positive(c)
            return (pol and isinstance(e, ast.Compare) and len(e.ops) == 1 and isinstance(e.ops[0], ast.IsNot)
                    and (_self_attr(e.comparators[0]) == "_done_event" or _self_attr(e.left) == "_done_event"))
        clr = bool(decs) and all(isinstance(it.node.op, ast.Sub) and any(not_sentinel(c) for c in it.conds) for it in decs)
        # ... while `task_done()` is owed for every entry taken from the queue, sentinel or not: no condition on it
        dones = [it for it in N.walk(fn) if N.calls_in(it.node, attr="task_done")]
        clr = clr and bool(dones) and all(not it.conds for it in dones)
    out.append(Fact("poolClearDecrementsTasksOnly", "Bool", None if clr is None else str(bool(clr)).lower(),
                    ["C10", "C11"], "clear(): the pending counter is decremented for dropped tasks, not for sentinels "
                                    "(every decrement is dominated by `entry is not self._done_event`; task_done() is unconditional)",
                    json_value=clr))

    # ---- constructor defaults --------------------------------------------------------------------------------
    dflt = None
    fn = methods.get("__init__")
    if fn is not None:
        names = [a.arg for a in fn.args.args]
        d = fn.args.defaults
        m = dict(zip(names[len(names) - len(d):], d))
        try:
            dflt = (m["min_threads"].value, m["queue_size"].value, m["timeout"].value)
            if not all(isinstance(x, int) and not isinstance(x, bool) and x >= 0 for x in dflt):
                dflt = None
        except (KeyError, AttributeError):
            dflt = None
    out.append(Fact("poolCtorDefaults", "Nat × Nat × Nat", None if dflt is None else "(%d, %d, %d)" % dflt,
                    ["C10"], "ThreadPool.__init__ defaults (min_threads, queue_size, timeout)", json_value=dflt))

    # ---- constructor: which errors of int() are caught ----------------------------------------------------------------
    # per `int(...)` conversion, in program order: the classes caught by the try statements whose body it sits in
    catches = None
    if fn is not None:
        catches = []
        for it in N.walk(fn, ()):
            for _c in N.calls_in(it.node, name="int"):
                names = set()
                for t, part, _h in it.tries:
                    if part == "body":
                        for h in t.handlers:
                            names |= N.handler_classes(h)
                catches.append(sorted(names))
        catches = catches or None
    out.append(Fact("poolCtorCatches", "List (List String)",
                    None if catches is None else "[" + ", ".join("[" + ", ".join(lean_str(x) for x in c) + "]" for c in catches) + "]",
                    ["C10"], "ThreadPool.__init__: exception classes caught around each int(...) conversion (max_threads, "
                             "min_threads, queue_size), in source order", json_value=catches))

    # ---- __start_thread: the failure branch of Thread.start() -----------------------------------------------------------
    rollback = None
    fn = methods.get("__start_thread")
    if fn is not None:
        for n in ast.walk(fn):
            if not isinstance(n, ast.Try):
                continue
            start_line = None
            for b in n.body:
                for c in ast.walk(b):
                    if isinstance(c, ast.Call) and isinstance(c.func, ast.Attribute) and c.func.attr == "start":
                        start_line = c.lineno
            if start_line is None:
                continue

            def _delta(m, op):
                return (isinstance(m, ast.AugAssign) and _self_attr(m.target) == "__nb_threads" and isinstance(m.op, op)
                        and isinstance(m.value, ast.Constant) and m.value.value == 1)
            incs = [m.lineno for m in ast.walk(fn) if _delta(m, ast.Add)]
            inc = len(incs) == 1 and incs[0] < start_line
            undone = True
            for klass in ("RuntimeError", "OSError"):
                # the first clause that names the class is the one that handles it
                h = next((h for h in n.handlers if klass in N.handler_classes(h)), None)
                if h is None:
                    undone = False
                    continue
                decs = [m for b in h.body for m in ast.walk(b) if _delta(m, ast.Sub)]
                ret_false = any(isinstance(b, ast.Return) and isinstance(b.value, ast.Constant) and b.value.value is False
                                for b in h.body)
                undone = undone and len(decs) == 1 and ret_false
            # (the else clause of the try continues its body when start() did not raise)
            apps = [c.lineno for b in list(n.body) + list(n.orelse) for c in ast.walk(b)
                    if isinstance(c, ast.Call) and isinstance(c.func, ast.Attribute) and c.func.attr == "append"
                    and _self_attr(c.func.value) == "_threads"]
            all_apps = [c for c in ast.walk(fn) if isinstance(c, ast.Call) and isinstance(c.func, ast.Attribute)
                        and c.func.attr == "append" and _self_attr(c.func.value) == "_threads"]
            listed_after = len(apps) == 1 and len(all_apps) == 1 and apps[0] > start_line
            rollback = (bool(inc), bool(undone), bool(listed_after))
    out.append(Fact("poolStartRollback", "Bool × Bool × Bool",
                    None if rollback is None else "(%s)" % ", ".join(str(b).lower() for b in rollback),
                    ["C10", "C09", "C11"],
                    "__start_thread: (nb_threads += 1 once, before thread.start(); the handler of (RuntimeError, OSError) "
                    "undoes it with nb_threads -= 1 and returns False; _threads.append comes after start())",
                    json_value=rollback))

    # ---- __run / enqueue: the error paths do not read an attribute the task may lack ---------------------------------------
    safe = None
    fn = methods.get("__run")
    if fn is not None:
        for n in ast.walk(fn):
            if isinstance(n, ast.Try) and any(isinstance(c, ast.Call) and isinstance(c.func, ast.Attribute)
                                              and c.func.attr == "execute" for b in n.body for c in ast.walk(b)):
                hs = [h for h in n.handlers if isinstance(h.type, ast.Name) and h.type.id == "Exception"]
                ok = bool(hs) and any(_calls(ast.Module(body=n.finalbody, type_ignores=[]), "task_done") for _ in [0])
                for h in hs:
                    ok = ok and _no_risky_attribute(h.body)
                safe = bool(ok)
    fn = methods.get("enqueue")
    if fn is not None and safe is not None:
        for n in ast.walk(fn):
            if isinstance(n, ast.Raise):
                safe = safe and _no_risky_attribute([n])
    out.append(Fact("poolRunHandlerSafe", "Bool", None if safe is None else str(bool(safe)).lower(),
                    ["C09", "C10"],
                    "__run: the `except Exception` handler around future.execute (and the ValueError raised by enqueue) reads "
                    "no attribute of the task other than through getattr with a default: it cannot raise for a "
                    "functools.partial / callable instance; task_done() sits in the finally block", json_value=safe))
    # ---- the future's event publishes LAST -----------------------------------------------------------------------------
    # The pool model's `fut.set` is one step: the flag of the future's event AND everything the worker does up to
    # `queue.task_done`.  That is exact only when nothing a client can read from the future (data, exception) is written
    # after the flag has been raised: both fields first, the flag - `self.__event.set()` - as the last statement.
    pub = []
    ecls = src.klass("threadpool", "EventData")
    emethods = N.normalised_methods(ecls, EVENT_ANCHORS, module=src.module("threadpool"))
    for name in ("set", "raise_exception"):
        fn = emethods.get(name)
        row = _publish_order(fn) if fn is not None else None
        if row is None:
            pub = None
            break
        pub.append((name, row[0], row[1]))
    out.append(Fact(
        "poolFuturePublishesLast", "List (String × List String × List String)",
        None if pub is None else "[" + ", ".join(
            "(%s, [%s], [%s])" % (lean_str(n), ", ".join(lean_str(x) for x in b), ", ".join(lean_str(x) for x in a))
            for n, b, a in pub) + "]",
        ["C09"], "EventData.set / raise_exception: (method, fields stored BEFORE the statement that raises the event's flag, "
                 "what is executed AFTER it) - the future reports done only once its data and exception are in place",
        json_value=None if pub is None else [list(r) for r in pub]))
    # ---- how stop() and enqueue() put into the queue ------------------------------------------------------------------
    # The model's `enqPut` / `stopPut` steps are BLOCKING puts (enabled only while the queue is not full) that give up
    # after the pool's `timeout`: `self._queue.put(x, True, self._timeout)`.  A non-blocking put (`put_nowait`,
    # `put(x, False)`) raises Full at once on a bounded queue: stop() would then hand out fewer markers than workers.
    # (a put is attributed by WHAT it puts - the stop marker `self._done_event`, possibly through a local alias, belongs to
    # stop(), anything else is a task of enqueue() - so that a marker loop moved to a helper is still found)
    puts = None
    if methods.get("stop") is not None and methods.get("enqueue") is not None:
        puts = []
        for name, fn in methods.items():
            for c in _queue_puts(fn):
                item = c.args[0] if c.args else next((k.value for k in c.keywords if k.arg == "item"), None)
                marker = item is not None and _operand(item, fn) == "_done_event"
                puts.append(("stop" if marker else "enqueue",) + _put_mode(c))
        puts = sorted(set(puts)) or None
    out.append(Fact("poolQueuePuts", "List (String × Bool × Bool)",
                    None if puts is None else "[" + ", ".join("(%s, %s, %s)" % (lean_str(m), str(b).lower(), str(t).lower())
                                                              for m, b, t in puts) + "]",
                    ALL3, "enqueue / stop: every put into the task queue as (method, blocking, timed by self._timeout)",
                    json_value=puts))

    # ---- a task's arguments travel untouched from enqueue() to the call ---------------------------------------------
    fwd = None
    fcls = src.klass("threadpool", "FutureResult")
    fmethods = N.normalised_methods(fcls, ("__init__", "set_callback", "execute", "done", "result"),
                                    module=src.module("threadpool"))
    if methods.get("enqueue") is not None and methods.get("__run") is not None and fmethods.get("execute") is not None:
        fwd = (_enqueue_signature_plain(methods["enqueue"]), _enqueue_queues_arguments(methods["enqueue"]),
               _run_passes_arguments(methods["__run"]), _execute_calls_with_arguments(fmethods["execute"]))
    out.append(Fact("poolTaskArgsForwarded", "Bool × Bool × Bool × Bool",
                    None if fwd is None else "(%s)" % ", ".join(str(bool(b)).lower() for b in fwd),
                    ["C09"],
                    "a task's arguments: (enqueue(self, method, *args, **kwargs) has no other named parameter; it queues "
                    "(method, args, kwargs, future) without rebinding / mutating / calling a method of args or kwargs; the "
                    "worker unpacks the entry and calls future.execute(method, args, kwargs) with these three; execute calls "
                    "method(*args, **kwargs), args / kwargs rebound only when they are None)", json_value=fwd))
    return out


def _queue_puts(fn):
    return [n for n in ast.walk(fn) if isinstance(n, ast.Call) and isinstance(n.func, ast.Attribute)
            and n.func.attr in ("put", "put_nowait") and _self_attr(n.func.value) == "_queue"]


def _put_mode(call):
    """(blocking, timed by self._timeout) of a `self._queue.put(...)` / `put_nowait(...)` call."""
    if call.func.attr == "put_nowait":
        return (False, False)
    kw = {k.arg: k.value for k in call.keywords}
    block = call.args[1] if len(call.args) > 1 else kw.get("block")
    tmo = call.args[2] if len(call.args) > 2 else kw.get("timeout")
    blocking = block is None or (isinstance(block, ast.Constant) and block.value is True)
    return (bool(blocking), _self_attr(tmo) == "_timeout" if tmo is not None else False)


def _enqueue_signature_plain(fn):
    a = fn.args
    return (len(a.args) == 2 and not a.kwonlyargs and not a.defaults and not a.kw_defaults and not getattr(a, "posonlyargs", [])
            and a.vararg is not None and a.kwarg is not None)


def _name_uses(fn, name):
    """(stores, receiver-of-attribute uses, subscript stores / deletions) of a local name in a function."""
    stores = recv = mut = 0
    for n in ast.walk(fn):
        if isinstance(n, ast.Name) and n.id == name and isinstance(n.ctx, (ast.Store, ast.Del)):
            stores += 1
        if isinstance(n, ast.Attribute) and isinstance(n.value, ast.Name) and n.value.id == name:
            recv += 1
        if isinstance(n, ast.Subscript) and isinstance(n.value, ast.Name) and n.value.id == name \
                and isinstance(n.ctx, (ast.Store, ast.Del)):
            mut += 1
    return stores, recv, mut


def _single_tuple_binding(fn, name):
    """The tuple a local is bound to, when it is assigned exactly once (`task = (method, args, kwargs, future)`)."""
    found = [n for n in ast.walk(fn) if isinstance(n, ast.Assign) and len(n.targets) == 1
             and isinstance(n.targets[0], ast.Name) and n.targets[0].id == name]
    if len(found) == 1 and _name_uses(fn, name)[0] == 1 and isinstance(found[0].value, ast.Tuple):
        return found[0].value
    return None


def _enqueue_queues_arguments(fn):
    a = fn.args
    if len(a.args) < 2 or a.vararg is None or a.kwarg is None:
        return False
    method, var, kw = a.args[1].arg, a.vararg.arg, a.kwarg.arg
    # neither argument container is rebound, mutated, or asked anything (`kwargs.pop(...)`, `kwargs.get(...)`, `del kwargs[k]`)
    for nm in (var, kw, method):
        stores, recv, mut = _name_uses(fn, nm)
        if stores or mut or (recv and nm != method):
            return False
    puts = _queue_puts(fn)
    if len(puts) != 1 or not puts[0].args:
        return False
    item = puts[0].args[0]
    if isinstance(item, ast.Name):
        item = _single_tuple_binding(fn, item.id)
    if not isinstance(item, ast.Tuple) or len(item.elts) != 4:
        return False
    names = [e.id if isinstance(e, ast.Name) else None for e in item.elts]
    return names[:3] == [method, var, kw] and names[3] is not None
    

def _run_passes_arguments(fn):
    unpacks = [n for n in ast.walk(fn) if isinstance(n, ast.Assign) and len(n.targets) == 1
               and isinstance(n.targets[0], ast.Tuple) and len(n.targets[0].elts) == 4
               and all(isinstance(e, ast.Name) for e in n.targets[0].elts)]
    execs = [n for n in ast.walk(fn) if isinstance(n, ast.Call) and isinstance(n.func, ast.Attribute) and n.func.attr == "execute"]
    if len(unpacks) != 1 or len(execs) != 1:
        return False
    m, a, k, f = [e.id for e in unpacks[0].targets[0].elts]
    c = execs[0]
    if not (isinstance(c.func.value, ast.Name) and c.func.value.id == f) or c.keywords or len(c.args) != 3:
        return False
    if [x.id if isinstance(x, ast.Name) else None for x in c.args] != [m, a, k]:
        return False
    # bound by the unpacking only
    return all(_name_uses(fn, nm)[0] == 1 and _name_uses(fn, nm)[2] == 0 for nm in (m, a, k, f))


def _execute_calls_with_arguments(fn):
    a = fn.args
    if len(a.args) != 4 or a.vararg is not None or a.kwarg is not None:
        return False
    method, args, kwargs = a.args[1].arg, a.args[2].arg, a.args[3].arg
    calls = [n for n in ast.walk(fn) if isinstance(n, ast.Call) and isinstance(n.func, ast.Name) and n.func.id == method]
    if len(calls) != 1:
        return False
    c = calls[0]
    ok = (len(c.args) == 1 and isinstance(c.args[0], ast.Starred) and isinstance(c.args[0].value, ast.Name)
          and c.args[0].value.id == args and len(c.keywords) == 1 and c.keywords[0].arg is None
          and isinstance(c.keywords[0].value, ast.Name) and c.keywords[0].value.id == kwargs)
    if not ok or _name_uses(fn, method)[0]:
        return False
    # `args` / `kwargs` are rebound only where they are None (the normalisation `if args is None: args = []`), never mutated
    for nm in (args, kwargs):
        if _name_uses(fn, nm)[1] or _name_uses(fn, nm)[2]:
            return False
    for it in N.walk(fn, ()):
        if it.kind != "stmt":
            continue
        for nm in (args, kwargs):
            if any(isinstance(x, ast.Name) and x.id == nm and isinstance(x.ctx, (ast.Store, ast.Del)) for x in ast.walk(it.node)):
                if "%s is None" % nm not in it.keys():
                    return False
    return True


def _stored_fields(st):
    """Private attributes of self that the statement stores (plain, tuple and augmented assignments)."""
    found = []
    targets = []
    if isinstance(st, ast.Assign):
        targets = list(st.targets)
    elif isinstance(st, (ast.AugAssign, ast.AnnAssign)):
        targets = [st.target]
    while targets:
        t = targets.pop()
        if isinstance(t, (ast.Tuple, ast.List)):
            targets.extend(t.elts)
        elif _self_attr(t) is not None:
            found.append(_self_attr(t))
    return found


def _raises_flag(st):
    """The statement raises the flag: `self.__event.set()`, or a call of a method of self that does (`self.set(...)`)."""
    for n in ast.walk(st):
        if isinstance(n, ast.Call) and isinstance(n.func, ast.Attribute):
            if n.func.attr == "set" and _self_attr(n.func.value) == "__event":
                return True
            if n.func.attr in ("set", "raise_exception") and isinstance(n.func.value, ast.Name) and n.func.value.id == "self":
                return True
    return False


def _publish_order(fn):
    """(sorted fields stored before the first flag-raising statement, descriptions of the statements after it) or None."""
    body = [st for st in fn.body if not (isinstance(st, ast.Expr) and isinstance(st.value, ast.Constant))]
    at = next((k for k, st in enumerate(body) if _raises_flag(st)), None)
    if at is None or not isinstance(body[at], ast.Expr):
        return None
    before = []
    for st in body[:at]:
        if not isinstance(st, (ast.Assign, ast.AugAssign, ast.AnnAssign)):
            return None  # a branch / loop / call before the flag: not the straight-line shape the model describes
        before.extend(_stored_fields(st))
    after = []
    for st in body[at + 1:]:
        fields = _stored_fields(st)
        after.append("store:" + ",".join(sorted(fields)) if fields else type(st).__name__)
    return sorted(set(before)), after


_SAFE_ATTR_OWNERS = ("self",)


def _no_risky_attribute(stmts):
    """No `x.attr` load on a plain local name other than `self` (e.g. `method.__name__`), and every getattr has a default."""
    for st in stmts:
        for n in ast.walk(st):
            if isinstance(n, ast.Attribute) and isinstance(n.value, ast.Name) and n.value.id not in _SAFE_ATTR_OWNERS \
                    and isinstance(n.ctx, ast.Load):
                # a method call on a value such as "...".format(...) has a Constant / Call owner, not a Name
                return False
            if isinstance(n, ast.Call) and isinstance(n.func, ast.Name) and n.func.id == "getattr" and len(n.args) < 3:
                return False
    return True
