"""
Facts about jsonrpclib/threadpool.py ThreadPool (C09, C10, C11): lock discipline of the shared counters and the
thread list, growth / spawn / retirement rules as (operator, left, right), the structure of join(), the stores to the
pending-task counter, the sentinel test of clear(), constructor defaults.
"""
import ast

from __main__ import Fact, lean_str

PROPERTIES = ["C09", "C10", "C11"]

SHARED = ("__nb_threads", "__nb_active_threads", "__nb_pending_task", "_threads")
ALL3 = ["C09", "C10", "C11"]


def _self_attr(node):
    """`self.<name>` -> name (class-private names are returned as written, e.g. `__lock`)."""
    if isinstance(node, ast.Attribute) and isinstance(node.value, ast.Name) and node.value.id == "self":
        return node.attr
    return None


def _is_lock_with(node):
    return isinstance(node, ast.With) and any(_self_attr(it.context_expr) == "__lock" for it in node.items)


def _accesses(fn):
    """(attr, kind, lineno, locked) for every access to a shared name in a method; kind in load/store/del/aug."""
    out = []

    def visit(node, locked):
        if _is_lock_with(node):
            for it in node.items:
                visit(it.context_expr, locked)
            for b in node.body:
                visit(b, True)
            return
        if isinstance(node, ast.AugAssign) and _self_attr(node.target) in SHARED:
            out.append((_self_attr(node.target), "aug", node.lineno, locked))
            visit(node.value, locked)
            return
        if isinstance(node, ast.Attribute) and _self_attr(node) in SHARED:
            kind = {"Load": "load", "Store": "store", "Del": "del"}[type(node.ctx).__name__]
            out.append((node.attr, kind, node.lineno, locked))
            return
        if isinstance(node, ast.Delete):
            for t in node.targets:
                # `del self._threads[:]` : the attribute itself is loaded, the effect is a deletion
                if isinstance(t, ast.Subscript) and _self_attr(t.value) in SHARED:
                    out.append((_self_attr(t.value), "del", node.lineno, locked))
                else:
                    visit(t, locked)
            return
        for ch in ast.iter_child_nodes(node):
            visit(ch, locked)

    for st in fn.body:
        visit(st, False)
    return out


def _cmp(node):
    """`self.a <op> self.b` -> (op, a, b) with private prefixes stripped."""
    if isinstance(node, ast.Compare) and len(node.ops) == 1:
        a, b = _self_attr(node.left), _self_attr(node.comparators[0])
        if a and b:
            return (type(node.ops[0]).__name__, a.lstrip("_"), b.lstrip("_"))
    return None


def _first_if(fn, pred):
    for n in ast.walk(fn):
        if isinstance(n, ast.If) and pred(n):
            return n
    return None


def _calls(node, name):
    for n in ast.walk(node):
        if isinstance(n, ast.Call) and isinstance(n.func, ast.Attribute) and n.func.attr == name:
            return True
    return False


def _triple(t):
    return "(%s, %s, %s)" % tuple(lean_str(x) for x in t)


def facts(src):
    out = []
    cls = src.klass("threadpool", "ThreadPool")
    methods = {}
    if cls is not None:
        for n in cls.body:
            if isinstance(n, ast.FunctionDef):
                methods[n.name] = n

    # ---- lock discipline table -------------------------------------------------------------
    table = []
    for name, fn in methods.items():
        if name == "__init__":
            continue
        for attr, kind, line, locked in _accesses(fn):
            table.append({"method": name, "attr": attr, "kind": kind, "line": line, "locked": locked})
    unlocked = sorted(set((r["method"], r["attr"].lstrip("_"), r["kind"]) for r in table if not r["locked"]))
    found = bool(table)
    out.append(Fact(
        "poolUnlockedAccesses", "List (String × String × String)",
        None if not found else "[" + ", ".join(_triple(t) for t in unlocked) + "]",
        ALL3, "ThreadPool: accesses (method, attribute, kind) to nb_threads / nb_active_threads / nb_pending_task / _threads "
              "that are NOT inside `with self.__lock` (each is a separate racy step of the model)",
        json_value={"unlocked": unlocked, "table": table}))

    # ---- stores to the pending counter -------------------------------------------------------
    stores = []
    for name, fn in methods.items():
        if name == "__init__":
            continue
        for n in ast.walk(fn):
            if isinstance(n, ast.AugAssign) and _self_attr(n.target) == "__nb_pending_task":
                stores.append((name.lstrip("_"), type(n.op).__name__))
            elif isinstance(n, ast.Assign) and any(_self_attr(t) == "__nb_pending_task" for t in n.targets):
                stores.append((name.lstrip("_"), "Assign"))
    stores.sort()
    out.append(Fact(
        "poolPendingStores", "List (String × String)",
        None if not stores else "[" + ", ".join("(%s, %s)" % (lean_str(a), lean_str(b)) for a, b in stores) + "]",
        ALL3, "ThreadPool: every store to nb_pending_task as (method, operator) — start() must not re-count pre-queued tasks",
        json_value=stores))

    # ---- growth rule (enqueue) and spawn guard (__start_thread) -----------------------------------
    growth = None
    fn = methods.get("enqueue")
    if fn is not None:
        n = _first_if(fn, lambda i: _cmp(i.test) is not None and _calls(i, "__start_thread"))
        if n is not None:
            growth = _cmp(n.test)
    out.append(Fact("poolGrowthRule", "String × String × String", None if growth is None else _triple(growth),
                    ["C10", "C09"], "enqueue: a worker is started when <left> <op> <right>", json_value=growth))
    spawn = None
    fn = methods.get("__start_thread")
    if fn is not None:
        n = _first_if(fn, lambda i: _cmp(i.test) is not None and any(isinstance(b, ast.Return) for b in i.body))
        flag = _first_if(fn, lambda i: _calls(i.test, "is_set") and any(isinstance(b, ast.Return) for b in i.body))
        if n is not None and flag is not None and _accesses(fn) and all(a[3] for a in _accesses(fn)):
            spawn = _cmp(n.test)
    out.append(Fact("poolSpawnRefusal", "String × String × String", None if spawn is None else _triple(spawn),
                    ["C10", "C11"], "__start_thread (entirely under the lock): refuses when <left> <op> <right>, and when the stop flag is set",
                    json_value=spawn))

    # ---- retirement rule (__run) ------------------------------------------------------------------
    retire = None
    fn = methods.get("__run")
    if fn is not None:
        for n in ast.walk(fn):
            if isinstance(n, ast.If) and isinstance(n.test, ast.BoolOp) and isinstance(n.test.op, ast.And):
                parts = [_cmp(v) for v in n.test.values]
                dec = any(isinstance(m, ast.AugAssign) and _self_attr(m.target) == "__nb_threads" and isinstance(m.op, ast.Sub)
                          for b in n.body for m in ast.walk(b))
                if all(parts) and dec:
                    retire = parts
    out.append(Fact("poolRetireRule", "List (String × String × String)",
                    None if retire is None else "[" + ", ".join(_triple(t) for t in retire) + "]",
                    ["C10", "C09"], "worker loop: an idle worker retires when all of these comparisons hold", json_value=retire))

    # ---- join() structure -----------------------------------------------------------------------------
    join = None
    fn = methods.get("join")
    if fn is not None:
        no_shortcut = not _calls(fn, "empty") and not _calls(fn, "qsize")
        top = [s for s in fn.body if isinstance(s, ast.If)]
        guarded = False
        ret_not_unfinished = False
        untimed = False
        if top:
            t = top[0]
            is_none = isinstance(t.test, ast.Compare) and isinstance(t.test.ops[0], ast.Is)
            if is_none:
                untimed = _calls(ast.Module(body=t.body, type_ignores=[]), "join") and any(
                    isinstance(b, ast.Return) and isinstance(b.value, ast.Constant) and b.value.value is True for b in t.body)
                for w in ast.walk(ast.Module(body=t.orelse, type_ignores=[])):
                    if isinstance(w, ast.If) and isinstance(w.test, ast.Attribute) and w.test.attr == "unfinished_tasks" \
                            and _calls(ast.Module(body=w.body, type_ignores=[]), "wait"):
                        guarded = True
                    if isinstance(w, ast.Return) and isinstance(w.value, ast.UnaryOp) and isinstance(w.value.op, ast.Not) \
                            and any(isinstance(m, ast.Attribute) and m.attr == "unfinished_tasks" for m in ast.walk(w.value)):
                        ret_not_unfinished = True
                waits = [w for w in ast.walk(ast.Module(body=t.orelse, type_ignores=[]))
                         if isinstance(w, ast.Call) and isinstance(w.func, ast.Attribute) and w.func.attr == "wait"]
                if len(waits) != 1:
                    guarded = False
        join = (no_shortcut, untimed, guarded, ret_not_unfinished)
    out.append(Fact("poolJoinShape", "Bool × Bool × Bool × Bool",
                    None if join is None else "(%s)" % ", ".join(str(b).lower() for b in join),
                    ["C11"], "join(): (no empty-queue shortcut, join() = Queue.join() then True, the timed wait is guarded by "
                             "`if unfinished_tasks`, join(t) returns `not unfinished_tasks`)", json_value=join))

    # ---- clear(): sentinel test before the decrement ------------------------------------------------------
    clr = None
    fn = methods.get("clear")
    if fn is not None:
        for n in ast.walk(fn):
            if isinstance(n, ast.If) and isinstance(n.test, ast.Compare) and isinstance(n.test.ops[0], ast.IsNot) \
                    and _self_attr(n.test.comparators[0]) == "_done_event":
                clr = any(isinstance(m, ast.AugAssign) and _self_attr(m.target) == "__nb_pending_task" for m in ast.walk(n))
        if clr is None:
            clr = False
    out.append(Fact("poolClearDecrementsTasksOnly", "Bool", None if clr is None else str(bool(clr)).lower(),
                    ["C10", "C11"], "clear(): the pending counter is decremented for dropped tasks, not for sentinels", json_value=clr))

    # ---- constructor defaults --------------------------------------------------------------------------------
    dflt = None
    fn = methods.get("__init__")
    if fn is not None:
        names = [a.arg for a in fn.args.args]
        d = fn.args.defaults
        m = dict(zip(names[len(names) - len(d):], d))
        try:
            dflt = (m["min_threads"].value, m["queue_size"].value, m["timeout"].value)
            if not all(isinstance(x, int) and not isinstance(x, bool) and x >= 0 for x in dflt):
                dflt = None
        except (KeyError, AttributeError):
            dflt = None
    out.append(Fact("poolCtorDefaults", "Nat × Nat × Nat", None if dflt is None else "(%d, %d, %d)" % dflt,
                    ["C10"], "ThreadPool.__init__ defaults (min_threads, queue_size, timeout)", json_value=dflt))
    return out
