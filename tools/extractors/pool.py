"""
Facts about jsonrpclib/threadpool.py ThreadPool (C09, C10, C11): lock discipline of the shared counters and the
thread list, growth / spawn / retirement rules as (operator, left, right), the structure of join(), the stores to the
pending-task counter, the sentinel test of clear(), constructor defaults.
"""
import ast

from __main__ import Fact, lean_str

PROPERTIES = ["C09", "C10", "C11"]

SHARED = ("__nb_threads", "__nb_active_threads", "__nb_pending_task", "_threads")
ALL3 = ["C09", "C10", "C11"]


def _self_attr(node):
    """`self.<name>` -> name (class-private names are returned as written, e.g. `__lock`)."""
    if isinstance(node, ast.Attribute) and isinstance(node.value, ast.Name) and node.value.id == "self":
        return node.attr
    return None


def _is_lock_with(node):
    return isinstance(node, ast.With) and any(_self_attr(it.context_expr) == "__lock" for it in node.items)


def _accesses(fn):
    """(attr, kind, lineno, locked) for every access to a shared name in a method; kind in load/store/del/aug."""
    out = []

    def visit(node, locked):
        if _is_lock_with(node):
            for it in node.items:
                visit(it.context_expr, locked)
            for b in node.body:
                visit(b, True)
            return
        if isinstance(node, ast.AugAssign) and _self_attr(node.target) in SHARED:
            out.append((_self_attr(node.target), "aug", node.lineno, locked))
            visit(node.value, locked)
            return
        if isinstance(node, ast.Attribute) and _self_attr(node) in SHARED:
            kind = {"Load": "load", "Store": "store", "Del": "del"}[type(node.ctx).__name__]
            out.append((node.attr, kind, node.lineno, locked))
            return
        if isinstance(node, ast.Delete):
            for t in node.targets:
                # `del self._threads[:]` : the attribute itself is loaded, the effect is a deletion
                if isinstance(t, ast.Subscript) and _self_attr(t.value) in SHARED:
                    out.append((_self_attr(t.value), "del", node.lineno, locked))
                else:
                    visit(t, locked)
            return
        for ch in ast.iter_child_nodes(node):
            visit(ch, locked)

    for st in fn.body:
        visit(st, False)
    return out


def _local_aliases(fn):
    """
    {local name: (self attribute, line)} for the locals of `fn` that are assigned exactly once, from `self.<attr>`
    (a hoisted attribute read: `nb = self.__nb_threads`).  A name that is assigned twice, is a parameter, or is the
    target of a for/with/augmented assignment is not an alias.
    """
    counts, alias = {}, {}
    params = {a.arg for a in fn.args.args + fn.args.kwonlyargs}
    for n in ast.walk(fn):
        targets = []
        if isinstance(n, ast.Assign):
            targets = n.targets
        elif isinstance(n, (ast.AugAssign, ast.AnnAssign, ast.For)):
            targets = [n.target]
        elif isinstance(n, ast.With):
            targets = [i.optional_vars for i in n.items if i.optional_vars is not None]
        elif isinstance(n, ast.NamedExpr):
            targets = [n.target]
        for t in targets:
            for m in ast.walk(t):
                if isinstance(m, ast.Name):
                    counts[m.id] = counts.get(m.id, 0) + 1
        if isinstance(n, ast.Assign) and len(n.targets) == 1 and isinstance(n.targets[0], ast.Name) \
                and _self_attr(n.value) is not None:
            alias[n.targets[0].id] = (_self_attr(n.value), n.lineno)
    return {k: v for k, v in alias.items() if counts.get(k) == 1 and k not in params}


def _stores_between(fn, attr, lo, hi):
    """Is `self.<attr>` stored to on a line in (lo, hi)?  (a hoisted read must not have gone stale)"""
    for n in ast.walk(fn):
        tgt = None
        if isinstance(n, ast.AugAssign):
            tgt = [n.target]
        elif isinstance(n, ast.Assign):
            tgt = n.targets
        for t in tgt or []:
            if _self_attr(t) == attr and lo < n.lineno < hi:
                return True
    return False


def _operand(node, fn):
    """`self.<attr>` or a single-assignment local alias of it (not stale at the point of use) -> attr."""
    a = _self_attr(node)
    if a:
        return a
    if fn is not None and isinstance(node, ast.Name):
        al = _local_aliases(fn).get(node.id)
        if al is not None and al[1] < node.lineno and not _stores_between(fn, al[0], al[1], node.lineno):
            return al[0]
    return None


def _cmp(node, fn=None):
    """`self.a <op> self.b` -> (op, a, b) with private prefixes stripped; an operand may also be a local that is
    assigned once from `self.<attr>` (`nb = self.__nb_threads; if nb >= self._max_threads`)."""
    if isinstance(node, ast.Compare) and len(node.ops) == 1:
        a, b = _operand(node.left, fn), _operand(node.comparators[0], fn)
        if a and b:
            return (type(node.ops[0]).__name__, a.lstrip("_"), b.lstrip("_"))
    return None


def _first_if(fn, pred):
    for n in ast.walk(fn):
        if isinstance(n, ast.If) and pred(n):
            return n
    return None


def _calls(node, name):
    for n in ast.walk(node):
        if isinstance(n, ast.Call) and isinstance(n.func, ast.Attribute) and n.func.attr == name:
            return True
    return False


def _triple(t):
    return "(%s, %s, %s)" % tuple(lean_str(x) for x in t)


def facts(src):
    out = []
    cls = src.klass("threadpool", "ThreadPool")
    methods = {}
    if cls is not None:
        for n in cls.body:
            if isinstance(n, ast.FunctionDef):
                methods[n.name] = n

    # ---- lock discipline table -------------------------------------------------------------
    table = []
    for name, fn in methods.items():
        if name == "__init__":
            continue
        for attr, kind, line, locked in _accesses(fn):
            table.append({"method": name, "attr": attr, "kind": kind, "line": line, "locked": locked})
    unlocked = sorted(set((r["method"], r["attr"].lstrip("_"), r["kind"]) for r in table if not r["locked"]))
    found = bool(table)
    out.append(Fact(
        "poolUnlockedAccesses", "List (String × String × String)",
        None if not found else "[" + ", ".join(_triple(t) for t in unlocked) + "]",
        ALL3, "ThreadPool: accesses (method, attribute, kind) to nb_threads / nb_active_threads / nb_pending_task / _threads "
              "that are NOT inside `with self.__lock` (each is a separate racy step of the model)",
        json_value={"unlocked": unlocked, "table": table}))

    # ---- stores to the pending counter -------------------------------------------------------
    stores = []
    for name, fn in methods.items():
        if name == "__init__":
            continue
        for n in ast.walk(fn):
            if isinstance(n, ast.AugAssign) and _self_attr(n.target) == "__nb_pending_task":
                stores.append((name.lstrip("_"), type(n.op).__name__))
            elif isinstance(n, ast.Assign) and any(_self_attr(t) == "__nb_pending_task" for t in n.targets):
                stores.append((name.lstrip("_"), "Assign"))
    stores.sort()
    out.append(Fact(
        "poolPendingStores", "List (String × String)",
        None if not stores else "[" + ", ".join("(%s, %s)" % (lean_str(a), lean_str(b)) for a, b in stores) + "]",
        ALL3, "ThreadPool: every store to nb_pending_task as (method, operator) — start() must not re-count pre-queued tasks",
        json_value=stores))

    # ---- growth rule (enqueue) and spawn guard (__start_thread) -----------------------------------
    growth = None
    fn = methods.get("enqueue")
    if fn is not None:
        n = _first_if(fn, lambda i: _cmp(i.test, fn) is not None and _calls(i, "__start_thread"))
        if n is not None:
            growth = _cmp(n.test, fn)
    out.append(Fact("poolGrowthRule", "String × String × String", None if growth is None else _triple(growth),
                    ["C10", "C09"], "enqueue: a worker is started when <left> <op> <right>", json_value=growth))
    spawn = None
    fn = methods.get("__start_thread")
    if fn is not None:
        n = _first_if(fn, lambda i: _cmp(i.test, fn) is not None and any(isinstance(b, ast.Return) for b in i.body))
        flag = _first_if(fn, lambda i: _calls(i.test, "is_set") and any(isinstance(b, ast.Return) for b in i.body))
        if n is not None and flag is not None and _accesses(fn) and all(a[3] for a in _accesses(fn)):
            spawn = _cmp(n.test, fn)
    out.append(Fact("poolSpawnRefusal", "String × String × String", None if spawn is None else _triple(spawn),
                    ["C10", "C11"], "__start_thread (entirely under the lock): refuses when <left> <op> <right>, and when the stop flag is set",
                    json_value=spawn))

    # ---- retirement rule (__run) ------------------------------------------------------------------
    retire = None
    fn = methods.get("__run")
    if fn is not None:
        for n in ast.walk(fn):
            if isinstance(n, ast.If) and isinstance(n.test, ast.BoolOp) and isinstance(n.test.op, ast.And):
                parts = [_cmp(v, fn) for v in n.test.values]
                dec = any(isinstance(m, ast.AugAssign) and _self_attr(m.target) == "__nb_threads" and isinstance(m.op, ast.Sub)
                          for b in n.body for m in ast.walk(b))
                if all(parts) and dec:
                    retire = parts
    out.append(Fact("poolRetireRule", "List (String × String × String)",
                    None if retire is None else "[" + ", ".join(_triple(t) for t in retire) + "]",
                    ["C10", "C09"], "worker loop: an idle worker retires when all of these comparisons hold", json_value=retire))

    # ---- join() structure -----------------------------------------------------------------------------
    join = None
    fn = methods.get("join")
    if fn is not None:
        no_shortcut = not _calls(fn, "empty") and not _calls(fn, "qsize")
        top = [s for s in fn.body if isinstance(s, ast.If)]
        guarded = False
        ret_not_unfinished = False
        untimed = False
        if top:
            t = top[0]
            is_none = isinstance(t.test, ast.Compare) and isinstance(t.test.ops[0], ast.Is)
            if is_none:
                untimed = _calls(ast.Module(body=t.body, type_ignores=[]), "join") and any(
                    isinstance(b, ast.Return) and isinstance(b.value, ast.Constant) and b.value.value is True for b in t.body)
                for w in ast.walk(ast.Module(body=t.orelse, type_ignores=[])):
                    if isinstance(w, ast.If) and isinstance(w.test, ast.Attribute) and w.test.attr == "unfinished_tasks" \
                            and _calls(ast.Module(body=w.body, type_ignores=[]), "wait"):
                        guarded = True
                    if isinstance(w, ast.Return) and isinstance(w.value, ast.UnaryOp) and isinstance(w.value.op, ast.Not) \
                            and any(isinstance(m, ast.Attribute) and m.attr == "unfinished_tasks" for m in ast.walk(w.value)):
                        ret_not_unfinished = True
                waits = [w for w in ast.walk(ast.Module(body=t.orelse, type_ignores=[]))
                         if isinstance(w, ast.Call) and isinstance(w.func, ast.Attribute) and w.func.attr == "wait"]
                if len(waits) != 1:
                    guarded = False
        join = (no_shortcut, untimed, guarded, ret_not_unfinished)
    out.append(Fact("poolJoinShape", "Bool × Bool × Bool × Bool",
                    None if join is None else "(%s)" % ", ".join(str(b).lower() for b in join),
                    ["C11"], "join(): (no empty-queue shortcut, join() = Queue.join() then True, the timed wait is guarded by "
                             "`if unfinished_tasks`, join(t) returns `not unfinished_tasks`)", json_value=join))

    # ---- clear(): sentinel test before the decrement ------------------------------------------------------
    clr = None
    fn = methods.get("clear")
    if fn is not None:
        for n in ast.walk(fn):
            if isinstance(n, ast.If) and isinstance(n.test, ast.Compare) and isinstance(n.test.ops[0], ast.IsNot) \
                    and _self_attr(n.test.comparators[0]) == "_done_event":
                clr = any(isinstance(m, ast.AugAssign) and _self_attr(m.target) == "__nb_pending_task" for m in ast.walk(n))
        if clr is None:
            clr = False
    out.append(Fact("poolClearDecrementsTasksOnly", "Bool", None if clr is None else str(bool(clr)).lower(),
                    ["C10", "C11"], "clear(): the pending counter is decremented for dropped tasks, not for sentinels", json_value=clr))

    # ---- constructor defaults --------------------------------------------------------------------------------
    dflt = None
    fn = methods.get("__init__")
    if fn is not None:
        names = [a.arg for a in fn.args.args]
        d = fn.args.defaults
        m = dict(zip(names[len(names) - len(d):], d))
        try:
            dflt = (m["min_threads"].value, m["queue_size"].value, m["timeout"].value)
            if not all(isinstance(x, int) and not isinstance(x, bool) and x >= 0 for x in dflt):
                dflt = None
        except (KeyError, AttributeError):
            dflt = None
    out.append(Fact("poolCtorDefaults", "Nat × Nat × Nat", None if dflt is None else "(%d, %d, %d)" % dflt,
                    ["C10"], "ThreadPool.__init__ defaults (min_threads, queue_size, timeout)", json_value=dflt))

    # ---- constructor: which errors of int() are caught ----------------------------------------------------------------
    catches = None
    if fn is not None:
        catches = []
        for n in ast.walk(fn):
            if isinstance(n, ast.Try) and any(isinstance(c, ast.Call) and isinstance(c.func, ast.Name) and c.func.id == "int"
                                              for b in n.body for c in ast.walk(b)):
                names = set()
                for h in n.handlers:
                    ts = h.type.elts if isinstance(h.type, ast.Tuple) else ([h.type] if h.type is not None else [])
                    for t in ts:
                        names.add(t.id if isinstance(t, ast.Name) else ast.dump(t))
                    if h.type is None:
                        names.add("BaseException")
                catches.append((n.lineno, sorted(names)))
        catches = [c for _l, c in sorted(catches)] or None
    out.append(Fact("poolCtorCatches", "List (List String)",
                    None if catches is None else "[" + ", ".join("[" + ", ".join(lean_str(x) for x in c) + "]" for c in catches) + "]",
                    ["C10"], "ThreadPool.__init__: exception classes caught around each int(...) conversion (max_threads, "
                             "min_threads, queue_size), in source order", json_value=catches))

    # ---- __start_thread: the failure branch of Thread.start() -----------------------------------------------------------
    rollback = None
    fn = methods.get("__start_thread")
    if fn is not None:
        for n in ast.walk(fn):
            if not isinstance(n, ast.Try):
                continue
            start_line = None
            for b in n.body:
                for c in ast.walk(b):
                    if isinstance(c, ast.Call) and isinstance(c.func, ast.Attribute) and c.func.attr == "start":
                        start_line = c.lineno
            if start_line is None:
                continue

            def _delta(m, op):
                return (isinstance(m, ast.AugAssign) and _self_attr(m.target) == "__nb_threads" and isinstance(m.op, op)
                        and isinstance(m.value, ast.Constant) and m.value.value == 1)
            incs = [m.lineno for m in ast.walk(fn) if _delta(m, ast.Add)]
            inc = len(incs) == 1 and incs[0] < start_line
            undone = False
            for h in n.handlers:
                ts = h.type.elts if isinstance(h.type, ast.Tuple) else ([h.type] if h.type is not None else [])
                caught = {t.id for t in ts if isinstance(t, ast.Name)}
                decs = [m for b in h.body for m in ast.walk(b) if _delta(m, ast.Sub)]
                ret_false = any(isinstance(b, ast.Return) and isinstance(b.value, ast.Constant) and b.value.value is False
                                for b in h.body)
                if {"RuntimeError", "OSError"} <= caught and len(decs) == 1 and ret_false:
                    undone = True
            apps = [c.lineno for b in n.body for c in ast.walk(b)
                    if isinstance(c, ast.Call) and isinstance(c.func, ast.Attribute) and c.func.attr == "append"
                    and _self_attr(c.func.value) == "_threads"]
            all_apps = [c for c in ast.walk(fn) if isinstance(c, ast.Call) and isinstance(c.func, ast.Attribute)
                        and c.func.attr == "append" and _self_attr(c.func.value) == "_threads"]
            listed_after = len(apps) == 1 and len(all_apps) == 1 and apps[0] > start_line
            rollback = (bool(inc), bool(undone), bool(listed_after))
    out.append(Fact("poolStartRollback", "Bool × Bool × Bool",
                    None if rollback is None else "(%s)" % ", ".join(str(b).lower() for b in rollback),
                    ["C10", "C09", "C11"],
                    "__start_thread: (nb_threads += 1 once, before thread.start(); the handler of (RuntimeError, OSError) "
                    "undoes it with nb_threads -= 1 and returns False; _threads.append comes after start())",
                    json_value=rollback))

    # ---- __run / enqueue: the error paths do not read an attribute the task may lack ---------------------------------------
    safe = None
    fn = methods.get("__run")
    if fn is not None:
        for n in ast.walk(fn):
            if isinstance(n, ast.Try) and any(isinstance(c, ast.Call) and isinstance(c.func, ast.Attribute)
                                              and c.func.attr == "execute" for b in n.body for c in ast.walk(b)):
                hs = [h for h in n.handlers if isinstance(h.type, ast.Name) and h.type.id == "Exception"]
                ok = bool(hs) and any(_calls(ast.Module(body=n.finalbody, type_ignores=[]), "task_done") for _ in [0])
                for h in hs:
                    ok = ok and _no_risky_attribute(h.body)
                safe = bool(ok)
    fn = methods.get("enqueue")
    if fn is not None and safe is not None:
        for n in ast.walk(fn):
            if isinstance(n, ast.Raise):
                safe = safe and _no_risky_attribute([n])
    out.append(Fact("poolRunHandlerSafe", "Bool", None if safe is None else str(bool(safe)).lower(),
                    ["C09", "C10"],
                    "__run: the `except Exception` handler around future.execute (and the ValueError raised by enqueue) reads "
                    "no attribute of the task other than through getattr with a default: it cannot raise for a "
                    "functools.partial / callable instance; task_done() sits in the finally block", json_value=safe))
    # ---- the future's event publishes LAST -----------------------------------------------------------------------------
    # The pool model's `fut.set` is one step: the flag of the future's event AND everything the worker does up to
    # `queue.task_done`.  That is exact only when nothing a client can read from the future (data, exception) is written
    # after the flag has been raised: both fields first, the flag - `self.__event.set()` - as the last statement.
    pub = []
    for name in ("set", "raise_exception"):
        fn = src.func("threadpool", "EventData." + name)
        row = _publish_order(fn) if fn is not None else None
        if row is None:
            pub = None
            break
        pub.append((name, row[0], row[1]))
    out.append(Fact(
        "poolFuturePublishesLast", "List (String × List String × List String)",
        None if pub is None else "[" + ", ".join(
            "(%s, [%s], [%s])" % (lean_str(n), ", ".join(lean_str(x) for x in b), ", ".join(lean_str(x) for x in a))
            for n, b, a in pub) + "]",
        ["C09"], "EventData.set / raise_exception: (method, fields stored BEFORE the statement that raises the event's flag, "
                 "what is executed AFTER it) - the future reports done only once its data and exception are in place",
        json_value=None if pub is None else [list(r) for r in pub]))
    return out


def _stored_fields(st):
    """Private attributes of self that the statement stores (plain, tuple and augmented assignments)."""
    found = []
    targets = []
    if isinstance(st, ast.Assign):
        targets = list(st.targets)
    elif isinstance(st, (ast.AugAssign, ast.AnnAssign)):
        targets = [st.target]
    while targets:
        t = targets.pop()
        if isinstance(t, (ast.Tuple, ast.List)):
            targets.extend(t.elts)
        elif _self_attr(t) is not None:
            found.append(_self_attr(t))
    return found


def _raises_flag(st):
    """The statement raises the flag: `self.__event.set()`, or a call of a method of self that does (`self.set(...)`)."""
    for n in ast.walk(st):
        if isinstance(n, ast.Call) and isinstance(n.func, ast.Attribute):
            if n.func.attr == "set" and _self_attr(n.func.value) == "__event":
                return True
            if n.func.attr in ("set", "raise_exception") and isinstance(n.func.value, ast.Name) and n.func.value.id == "self":
                return True
    return False


def _publish_order(fn):
    """(sorted fields stored before the first flag-raising statement, descriptions of the statements after it) or None."""
    body = [st for st in fn.body if not (isinstance(st, ast.Expr) and isinstance(st.value, ast.Constant))]
    at = next((k for k, st in enumerate(body) if _raises_flag(st)), None)
    if at is None or not isinstance(body[at], ast.Expr):
        return None
    before = []
    for st in body[:at]:
        if not isinstance(st, (ast.Assign, ast.AugAssign, ast.AnnAssign)):
            return None  # a branch / loop / call before the flag: not the straight-line shape the model describes
        before.extend(_stored_fields(st))
    after = []
    for st in body[at + 1:]:
        fields = _stored_fields(st)
        after.append("store:" + ",".join(sorted(fields)) if fields else type(st).__name__)
    return sorted(set(before)), after


_SAFE_ATTR_OWNERS = ("self",)


def _no_risky_attribute(stmts):
    """No `x.attr` load on a plain local name other than `self` (e.g. `method.__name__`), and every getattr has a default."""
    for st in stmts:
        for n in ast.walk(st):
            if isinstance(n, ast.Attribute) and isinstance(n.value, ast.Name) and n.value.id not in _SAFE_ATTR_OWNERS \
                    and isinstance(n.ctx, ast.Load):
                # a method call on a value such as "...".format(...) has a Constant / Call owner, not a Name
                return False
            if isinstance(n, ast.Call) and isinstance(n.func, ast.Name) and n.func.id == "getattr" and len(n.args) < 3:
                return False
    return True
