"""
Facts about jsonrpclib/SimpleJSONRPCServer.py: the dispatcher (C02, C03, C04, C05).
"""
import ast

from __main__ import Fact, const_num, lean_str, lean_bool, lean_list

PROPERTIES = ["C02", "C03", "C04", "C05"]
MOD = "SimpleJSONRPCServer"
FUNCS = ["validate_request", "SimpleJSONRPCDispatcher._unmarshaled_dispatch", "SimpleJSONRPCDispatcher._marshaled_dispatch",
         "SimpleJSONRPCDispatcher._safe_jdumps",
         "SimpleJSONRPCDispatcher._marshaled_single_dispatch", "SimpleJSONRPCDispatcher._method_exception_fault",
         "SimpleJSONRPCDispatcher._dispatch"]


def _is_fault_call(n):
    return isinstance(n, ast.Call) and (
        (isinstance(n.func, ast.Name) and n.func.id == "Fault") or (isinstance(n.func, ast.Attribute) and n.func.attr == "Fault"))


def _literal_code(c):
    code = const_num(c.args[0]) if c.args else None
    if code is None:
        for kw in c.keywords:
            if kw.arg == "code":
                code = const_num(kw.value)
    return code if isinstance(code, int) else None


def _callee_name(call):
    f = call.func
    if isinstance(f, ast.Name):
        return f.id
    if isinstance(f, ast.Attribute):
        return f.attr
    return None


def _fault_helpers(src):
    """Functions outside FUNCS (module level, methods of the dispatcher, local defs of the FUNCS) that build a Fault with
    one literal code: name -> code.  A call of such a helper counts as a Fault site of the caller."""
    roots = set(q.split(".")[-1] for q in FUNCS)
    helpers = {}
    tree = src.module(MOD)
    if tree is None:
        return helpers
    cands = []
    for n in tree.body:
        if isinstance(n, ast.FunctionDef):
            cands.append(n)
        elif isinstance(n, ast.ClassDef) and n.name == "SimpleJSONRPCDispatcher":
            cands.extend(m for m in n.body if isinstance(m, ast.FunctionDef))
    for q in FUNCS:
        fn = src.func(MOD, q)
        if fn is not None:
            cands.extend(x for x in ast.walk(fn) if isinstance(x, ast.FunctionDef) and x is not fn)
    for fn in cands:
        name = getattr(fn, "name", None)
        if name is None or name in roots:
            continue
        codes = set()
        ok = True
        for x in ast.walk(fn):
            if _is_fault_call(x):
                c = _literal_code(x)
                if c is None:
                    ok = False
                codes.add(c)
        if ok and len(codes) == 1:
            helpers[name] = codes.pop()
    return helpers


def _fault_sites(src):
    """The multiset of (function name, literal code) of the Fault(<literal>, ...) sites of the dispatcher, in canonical
    (sorted) order.  A site is a direct `Fault(<literal>, ..)` call in the function's own body (not in a local def) or a
    call of a helper that builds a Fault with one literal code (local def, module-level function or method outside FUNCS):
    refactoring two sites into one helper called twice leaves the table unchanged."""
    helpers = _fault_helpers(src)
    out = []
    for q in FUNCS:
        fn = src.func(MOD, q)
        if fn is None:
            return None
        inner = set()
        for x in ast.walk(fn):
            if isinstance(x, (ast.FunctionDef, ast.Lambda)) and x is not fn:
                inner.update(id(y) for y in ast.walk(x) if y is not x)
        for c in ast.walk(fn):
            if not isinstance(c, ast.Call) or id(c) in inner:
                continue
            if _is_fault_call(c):
                code = _literal_code(c)
                if code is None:
                    return None
                out.append((q.split(".")[-1], code))
            elif _callee_name(c) in helpers:
                out.append((q.split(".")[-1], helpers[_callee_name(c)]))
    return sorted(out)


def _catches_exception(handler):
    t = handler.type
    if t is None:
        return True
    return isinstance(t, ast.Name) and t.id in ("Exception", "BaseException")


def _call_named(node, name):
    for n in ast.walk(node):
        if isinstance(n, ast.Call):
            f = n.func
            if (isinstance(f, ast.Attribute) and f.attr == name) or (isinstance(f, ast.Name) and f.id == name):
                return True
    return False


def _guarded(fn, callee):
    """Is every call of `callee` in `fn` inside the body of a try with an `except Exception` (or wider) handler
    that does not re-raise?  None when there is no such call."""
    found = []

    def visit(node, guarded):
        if isinstance(node, ast.Try):
            g = guarded or any(_catches_exception(h) and not any(isinstance(x, ast.Raise) for s in h.body for x in ast.walk(s))
                               for h in node.handlers)
            for s in node.body:
                visit(s, g)
            for h in node.handlers:
                for s in h.body:
                    visit(s, guarded)
            for s in node.orelse + node.finalbody:
                visit(s, guarded)
            return
        if isinstance(node, ast.Call):
            f = node.func
            if (isinstance(f, ast.Attribute) and f.attr == callee) or (isinstance(f, ast.Name) and f.id == callee):
                found.append(guarded)
        for c in ast.iter_child_nodes(node):
            visit(c, guarded)

    for s in fn.body:
        visit(s, False)
    if not found:
        return None
    return all(found)


def _single_dispatch_handlers(fn):
    """For each `except Exception` handler of _marshaled_single_dispatch, in order:
    (Fault call carries an rpcid keyword, handler returns None under `if is_notification` before answering)."""
    out = []
    tries = [n for n in ast.walk(fn) if isinstance(n, ast.Try)]
    tries.sort(key=lambda n: n.lineno)
    for t in tries:
        for h in t.handlers:
            if not _catches_exception(h):
                continue
            faults = [n for s in h.body for n in ast.walk(s) if _is_fault_call(n)]
            if not faults:
                continue
            has_id = all(any(kw.arg == "rpcid" for kw in f.keywords) for f in faults)
            notif_first = False
            for s in h.body:
                if isinstance(s, ast.If) and isinstance(s.test, ast.Name) and s.test.id == "is_notification":
                    if any(isinstance(x, ast.Return) and (x.value is None or (isinstance(x.value, ast.Constant) and x.value.value is None))
                           for x in s.body):
                        notif_first = True
                        break
                if isinstance(s, ast.Return):
                    break
            out.append((has_id, notif_first))
    return out or None


def _is_request_id(node):
    """`request["id"]`, `request.get("id")` or `request.get("id", None)`."""
    if isinstance(node, ast.Subscript) and isinstance(node.value, ast.Name) and node.value.id == "request" \
            and isinstance(node.slice, ast.Constant) and node.slice.value == "id":
        return "subscript"
    if isinstance(node, ast.Call) and isinstance(node.func, ast.Attribute) and node.func.attr == "get" \
            and isinstance(node.func.value, ast.Name) and node.func.value.id == "request" and node.args \
            and isinstance(node.args[0], ast.Constant) and node.args[0].value == "id" and not node.keywords \
            and (len(node.args) == 1 or (len(node.args) == 2 and isinstance(node.args[1], ast.Constant) and node.args[1].value is None)):
        return "get"
    return None


def _membership_constants(node):
    """`<request id> in (<constants>)` -> (access kind, constants) else None."""
    if not (isinstance(node, ast.Compare) and len(node.ops) == 1 and isinstance(node.ops[0], ast.In)
            and isinstance(node.comparators[0], (ast.Tuple, ast.List))):
        return None
    kind = _is_request_id(node.left)
    if kind is None:
        return None
    vals = []
    for e in node.comparators[0].elts:
        if isinstance(e, ast.Constant) and (e.value is None or isinstance(e.value, str)):
            vals.append(e.value)
        else:
            return None
    return kind, vals


def _notif_test(fn):
    """The ids that make a validated request a notification, from either spelling of the test
        is_notification = "id" not in request or request["id"] in (<constants>)
        is_notification = request.get("id") in (<constants containing None>)
    (equivalent on a dictionary: a missing id reads as None).  The constants in canonical order, else None."""
    for n in ast.walk(fn):
        if isinstance(n, ast.Assign) and len(n.targets) == 1 and isinstance(n.targets[0], ast.Name) \
                and n.targets[0].id == "is_notification":
            v = n.value
            vals = None
            if isinstance(v, ast.BoolOp) and isinstance(v.op, ast.Or) and len(v.values) == 2:
                a, b = v.values
                ok_a = (isinstance(a, ast.Compare) and len(a.ops) == 1 and isinstance(a.ops[0], ast.NotIn)
                        and isinstance(a.left, ast.Constant) and a.left.value == "id"
                        and isinstance(a.comparators[0], ast.Name) and a.comparators[0].id == "request")
                m = _membership_constants(b)
                if ok_a and m is not None:
                    vals = m[1]
            else:
                m = _membership_constants(v)
                # without the `"id" not in request` disjunct a missing id must read as a member: .get + None in the tuple
                if m is not None and m[0] == "get" and None in m[1]:
                    vals = m[1]
            if vals is None:
                return None
            # membership does not depend on the order of the tuple: canonical order (None first, then strings), no repeats
            return sorted(set(vals), key=lambda v: (v is not None, v or ""))
    return None


def _dispatch_call_try(fn):
    """The try statement of _dispatch whose body calls `func(*params)`."""
    for n in ast.walk(fn):
        if isinstance(n, ast.Try):
            for s in n.body:
                for c in ast.walk(s):
                    if isinstance(c, ast.Call) and isinstance(c.func, ast.Name) and c.func.id == "func":
                        return n
    return None


def _handler_names(t):
    out = []
    for h in t.handlers:
        if h.type is None:
            out.append("<bare>")
        elif isinstance(h.type, ast.Name):
            out.append(h.type.id)
        else:
            out.append("<other>")
    return out


def _is_handler_traceback(node, handler):
    """`sys.exc_info()[2]` (or `exc_info()[2]`), or `<handler name>.__traceback__`: the traceback of the exception
    being handled, with no intervening rebinding."""
    if isinstance(node, ast.Subscript) and isinstance(node.slice, ast.Constant) and node.slice.value == 2 \
            and isinstance(node.value, ast.Call) and not node.value.args and not node.value.keywords:
        f = node.value.func
        if isinstance(f, ast.Attribute) and f.attr == "exc_info" and isinstance(f.value, ast.Name) and f.value.id == "sys":
            return True
        if isinstance(f, ast.Name) and f.id == "exc_info":
            return True
    if isinstance(node, ast.Attribute) and node.attr == "__traceback__" and isinstance(node.value, ast.Name) \
            and handler.name is not None and node.value.id == handler.name:
        return True
    return False


def _tb_next_test(t):
    """In the `except TypeError` handler, before the -32602 Fault:
    `if sys.exc_info()[2].tb_next is not None: return self._method_exception_fault(..)` — the tested object must be the
    traceback of the handled exception itself (`sys.exc_info()[2]` / `ex.__traceback__`), not a variable."""
    for h in t.handlers:
        if isinstance(h.type, ast.Name) and h.type.id == "TypeError":
            for s in h.body:
                if isinstance(s, ast.If):
                    tst = s.test
                    if (isinstance(tst, ast.Compare) and len(tst.ops) == 1 and isinstance(tst.ops[0], ast.IsNot)
                            and isinstance(tst.left, ast.Attribute) and tst.left.attr == "tb_next"
                            and _is_handler_traceback(tst.left.value, h)
                            and isinstance(tst.comparators[0], ast.Constant) and tst.comparators[0].value is None):
                        returns_exc = any(isinstance(x, ast.Return) and x.value is not None and _call_named(x.value, "_method_exception_fault")
                                          for x in s.body)
                        return returns_exc
                if any(_is_fault_call(x) for x in ast.walk(s)):
                    return False
            return False
    return None


# what an exception handler of the dispatcher may call: build the Fault, format its message, log it — never the callable
REPORTING_CALLS = {"Fault", "format", "warning", "error", "exception", "info", "debug", "log", "_method_exception_fault",
                   "exc_info", "format_exception", "format_exception_only", "get", "type", "str", "repr", "dump", "isinstance",
                   "splitlines", "strip", "join", "len"}


def _handlers_only_report(dispatch_fn, single_fn):
    """Do the handlers around the call of the method (`_dispatch`: the try whose body calls func(..);
    `_marshaled_single_dispatch`: every `except Exception` handler) call nothing but Fault / format / logger /
    `_method_exception_fault` — in particular never `func`, `dispatch_method` or `self._dispatch` again?"""
    handlers = []
    t = _dispatch_call_try(dispatch_fn)
    if t is None:
        return None
    handlers.extend(t.handlers)
    for n in ast.walk(single_fn):
        if isinstance(n, ast.Try):
            handlers.extend(h for h in n.handlers if _catches_exception(h))
    if not handlers:
        return None
    for h in handlers:
        for s in h.body:
            for c in ast.walk(s):
                if isinstance(c, ast.Call) and _callee_name(c) not in REPORTING_CALLS:
                    return False
                if isinstance(c, (ast.While, ast.For)):
                    return False
    return True


def _method_unmodified(fn):
    """_dispatch: the parameters `method` and `params` are never rebound, the registry is read as `self.funcs[method]`,
    and the instance is consulted with the same `method` (2nd argument of resolve_dotted_attribute)."""
    for n in ast.walk(fn):
        targets = []
        if isinstance(n, ast.Assign):
            targets = n.targets
        elif isinstance(n, (ast.AugAssign, ast.AnnAssign)):
            targets = [n.target]
        elif isinstance(n, (ast.For, ast.comprehension)):
            targets = [n.target]
        elif isinstance(n, ast.NamedExpr):
            targets = [n.target]
        elif isinstance(n, ast.withitem) and n.optional_vars is not None:
            targets = [n.optional_vars]
        for t in targets:
            for x in ast.walk(t):
                if isinstance(x, ast.Name) and x.id in ("method", "params"):
                    return False
    sub = [n for n in ast.walk(fn) if isinstance(n, ast.Subscript) and isinstance(n.value, ast.Attribute) and n.value.attr == "funcs"]
    if not sub or not all(isinstance(n.slice, ast.Name) and n.slice.id == "method" for n in sub):
        return False
    for n in ast.walk(fn):
        if isinstance(n, ast.Call) and isinstance(n.func, ast.Name) and n.func.id == "resolve_dotted_attribute":
            if not (len(n.args) >= 2 and isinstance(n.args[1], ast.Name) and n.args[1].id == "method"):
                return False
    return True


def _batch_iterates_whole_request(fn, helpers=None):
    """_unmarshaled_dispatch: the batch loop is `for <entry> in request` over the parameter itself (no slice, no filter) —
    in the function's own body, or in a helper method it hands `request` to (`self.__batch(request, ..)` with
    `for <entry> in <that parameter>` inside)."""
    def loops_over(f, name):
        loops = [n for n in ast.walk(f) if isinstance(n, ast.For)]
        if not loops:
            return None
        return any(isinstance(n.iter, ast.Name) and n.iter.id == name for n in loops) and not any(
            isinstance(n.iter, ast.Subscript) for n in loops)

    own = loops_over(fn, "request")
    if own is not None:
        return own
    found = None
    for c in ast.walk(fn):
        if isinstance(c, ast.Call) and _callee_name(c) in (helpers or {}):
            h = helpers[_callee_name(c)]
            params = [a.arg for a in h.args.args if a.arg != "self"]
            for i, a in enumerate(c.args):
                if isinstance(a, ast.Name) and a.id == "request" and i < len(params):
                    r = loops_over(h, params[i])
                    if r is not None:
                        found = r if found is None else (found and r)
    return found


def _dotted_allowed(fn):
    for n in ast.walk(fn):
        if isinstance(n, ast.Call) and isinstance(n.func, ast.Name) and n.func.id == "resolve_dotted_attribute":
            if len(n.args) >= 3 and isinstance(n.args[2], ast.Constant):
                return bool(n.args[2].value)
            for kw in n.keywords:
                if kw.arg == "allow_dotted_names" and isinstance(kw.value, ast.Constant):
                    return bool(kw.value.value)
            return False
    return None


def _assigned_names(node):
    out = []
    for n in ast.walk(node):
        targets = []
        if isinstance(n, ast.Assign):
            targets = n.targets
        elif isinstance(n, (ast.AugAssign, ast.AnnAssign, ast.NamedExpr)):
            targets = [n.target]
        for t in targets:
            out.extend(x.id for x in ast.walk(t) if isinstance(x, ast.Name))
    return out


def _reads_response_id(v):
    """`<response>.get("id")` / `.get("id", None)` / `<response>["id"]`."""
    is_get = (isinstance(v, ast.Call) and isinstance(v.func, ast.Attribute) and v.func.attr == "get"
              and isinstance(v.func.value, ast.Name) and v.args and isinstance(v.args[0], ast.Constant)
              and v.args[0].value == "id" and not v.keywords
              and (len(v.args) == 1 or (len(v.args) == 2 and isinstance(v.args[1], ast.Constant) and v.args[1].value is None)))
    is_sub = (isinstance(v, ast.Subscript) and isinstance(v.value, ast.Name) and isinstance(v.slice, ast.Constant)
              and v.slice.value == "id")
    return is_get or is_sub


def _is_none(node):
    return node is None or (isinstance(node, ast.Constant) and node.value is None)


def _trial_jdumps(stmt, var):
    """`jdumps(<var>, ..)` as an expression statement (or bound to another name)."""
    return (isinstance(stmt, (ast.Expr, ast.Assign)) and isinstance(stmt.value, ast.Call) and _callee_name(stmt.value) == "jdumps"
            and stmt.value.args and isinstance(stmt.value.args[0], ast.Name) and stmt.value.args[0].id == var
            and (not isinstance(stmt, ast.Assign) or var not in _assigned_names(stmt)))


def _probe_filter(fn):
    """A helper `def f(self, x)` that returns `x` when a trial `jdumps(x, ..)` succeeds and None when it raises:
        try: jdumps(x, ..)  except Exception: return None  [else: return x]  /  return x
    and nothing else."""
    params = [a.arg for a in fn.args.args if a.arg != "self"]
    if len(params) != 1 or fn.args.vararg or fn.args.kwarg or fn.args.kwonlyargs:
        return False
    x = params[0]
    stmts = [st for st in fn.body if not (isinstance(st, ast.Expr) and isinstance(st.value, ast.Constant))]
    if not stmts or not isinstance(stmts[0], ast.Try):
        return False
    t = stmts[0]
    ret_x = lambda st: isinstance(st, ast.Return) and isinstance(st.value, ast.Name) and st.value.id == x  # noqa: E731
    if not (len(t.body) in (1, 2) and _trial_jdumps(t.body[0], x) and (len(t.body) == 1 or ret_x(t.body[1]))):
        return False
    if not (len(t.handlers) == 1 and _catches_exception(t.handlers[0]) and len(t.handlers[0].body) == 1
            and isinstance(t.handlers[0].body[0], ast.Return) and _is_none(t.handlers[0].body[0].value)):
        return False
    if t.finalbody or x in _assigned_names(fn):
        return False
    tail = list(t.orelse) + stmts[1:]
    returns_in_try = len(t.body) == 2
    return (len(tail) == 1 and ret_x(tail[0])) or (returns_in_try and not tail)


def _safe_jdumps_id_probe(fn, helpers=None):
    """_safe_jdumps, in the handler of the failed serialisation: the id the replacement keeps is read from the response
    (`response.get("id")` / `response["id"]`), and the *only* thing that decides whether it is kept is a trial serialisation
    of that very value — inline (`try: jdumps(<v>, ..) except Exception: <v> = None`) or through a helper that does exactly
    that (`_probe_filter`) — no type test, no other rebinding; the Fault is built with rpcid=<v>."""
    helpers = helpers or {}
    for t in (n for n in ast.walk(fn) if isinstance(n, ast.Try)):
        for h in t.handlers:
            if not _catches_exception(h):
                continue
            faults = [n for s in h.body for n in ast.walk(s) if _is_fault_call(n)]
            if not faults:
                continue
            var = None
            filtered = False
            for s in h.body:
                if isinstance(s, ast.Assign) and len(s.targets) == 1 and isinstance(s.targets[0], ast.Name):
                    v = s.value
                    if _reads_response_id(v):
                        var = s.targets[0].id
                        break
                    if (isinstance(v, ast.Call) and _callee_name(v) in helpers and _probe_filter(helpers[_callee_name(v)])
                            and len(v.args) == 1 and not v.keywords and _reads_response_id(v.args[0])):
                        var = s.targets[0].id
                        filtered = True
                        break
            if var is None:
                return False
            probes = []
            for s in h.body:
                if isinstance(s, ast.Try):
                    body_ok = len(s.body) == 1 and _trial_jdumps(s.body[0], var)
                    resets = (len(s.handlers) == 1 and _catches_exception(s.handlers[0]) and not s.orelse and not s.finalbody
                              and len(s.handlers[0].body) == 1 and isinstance(s.handlers[0].body[0], ast.Assign)
                              and len(s.handlers[0].body[0].targets) == 1 and isinstance(s.handlers[0].body[0].targets[0], ast.Name)
                              and s.handlers[0].body[0].targets[0].id == var and _is_none(s.handlers[0].body[0].value))
                    if body_ok and resets:
                        probes.append(s)
            if len(probes) != (0 if filtered else 1):
                return False
            # the variable is bound once (filtered by the helper) or twice (read from the response, reset by the probe)
            n_bind = sum(1 for s in h.body for x in _assigned_names(s) if x == var)
            if n_bind != (1 if filtered else 2):
                return False
            return all(any(kw.arg == "rpcid" and isinstance(kw.value, ast.Name) and kw.value.id == var for kw in f.keywords) for f in faults)
    return None


def facts(src):
    out = []
    # module-level functions and methods of the dispatcher, by name: a fact about a statement sequence also recognises the
    # sequence when it has been moved verbatim into such a helper
    helpers = {}
    tree = src.module(MOD)
    for n in (tree.body if tree is not None else []):
        if isinstance(n, ast.FunctionDef):
            helpers[n.name] = n
        elif isinstance(n, ast.ClassDef) and n.name == "SimpleJSONRPCDispatcher":
            helpers.update((m.name, m) for m in n.body if isinstance(m, ast.FunctionDef))
    sites = _fault_sites(src)
    out.append(Fact(
        "faultSites", "List (String × Int)",
        None if sites is None else lean_list(["(%s, (%d : Int))" % (lean_str(f), c) for f, c in sites]),
        ["C02", "C05"], "multiset of (enclosing function, literal code) of the Fault sites of the dispatcher (direct calls and calls of Fault-building helpers), sorted",
        json_value=sites))
    md = src.func(MOD, "SimpleJSONRPCDispatcher._marshaled_dispatch")
    lg = _guarded(md, "loads") if md is not None else None
    out.append(Fact("loadsGuarded", "Bool", None if lg is None else lean_bool(lg), ["C02", "C05"],
                    "_marshaled_dispatch: the call of loads is inside try/except Exception (no re-raise)", json_value=lg))
    jg = _guarded(md, "jdumps") if md is not None else None
    out.append(Fact("jdumpsGuarded", "Bool", None if jg is None else lean_bool(jg), ["C02"],
                    "_marshaled_dispatch: the final jdumps of the reply is inside try/except Exception (no re-raise)", json_value=jg))
    sj = src.func(MOD, "SimpleJSONRPCDispatcher._safe_jdumps")
    sg = _guarded(sj, "jdumps") if sj is not None else None
    out.append(Fact("safeJdumpsGuarded", "Bool", None if sg is None else lean_bool(sg), ["C02", "C03"],
                    "_safe_jdumps: both jdumps calls (the response, the id probe) are inside try/except Exception (no re-raise)",
                    json_value=sg))
    sp = _safe_jdumps_id_probe(sj, helpers) if sj is not None else None
    out.append(Fact("safeJdumpsIdProbe", "Bool", None if sp is None else lean_bool(sp), ["C02", "C03"],
                    "_safe_jdumps: whether the replacement keeps the response's id is decided by a trial serialisation of that id "
                    "alone (try: jdumps(id) except Exception: id = None) — no type test — and the Fault gets rpcid=<that id>",
                    json_value=sp))
    ud = src.func(MOD, "SimpleJSONRPCDispatcher._unmarshaled_dispatch")
    bw = _batch_iterates_whole_request(ud, helpers) if ud is not None else None
    out.append(Fact("batchLoopOverRequest", "Bool", None if bw is None else lean_bool(bw), ["C03"],
                    "_unmarshaled_dispatch: the batch loop iterates over `request` itself (no slice)", json_value=bw))
    sd = src.func(MOD, "SimpleJSONRPCDispatcher._marshaled_single_dispatch")
    hs = _single_dispatch_handlers(sd) if sd is not None else None
    out.append(Fact("exceptFaultsCarryId", "List Bool", None if hs is None else lean_list([lean_bool(a) for a, _ in hs]), ["C03"],
                    "_marshaled_single_dispatch: for each `except Exception` handler, the Fault it builds is given rpcid=",
                    json_value=None if hs is None else [a for a, _ in hs]))
    out.append(Fact("exceptPathSilencesNotification", "Bool", None if hs is None else lean_bool(hs[0][1]), ["C04"],
                    "_marshaled_single_dispatch: the handler around the dispatcher call returns None for a notification before answering",
                    json_value=None if hs is None else hs[0][1]))
    nt = _notif_test(sd) if sd is not None else None
    out.append(Fact("notifIds", "List (Option String)",
                    None if nt is None else lean_list(["none" if v is None else "some %s" % lean_str(v) for v in nt]), ["C04", "C03"],
                    "is_notification = \"id\" not in request or request[\"id\"] in (<these constants, in canonical order>) "
                    "(or the equivalent request.get(\"id\") in (..))", json_value=nt))
    dp = src.func(MOD, "SimpleJSONRPCDispatcher._dispatch")
    t = _dispatch_call_try(dp) if dp is not None else None
    hn = _handler_names(t) if t is not None else None
    out.append(Fact("dispatchHandlers", "List String", None if hn is None else lean_list([lean_str(x) for x in hn]), ["C05"],
                    "_dispatch: exception classes of the handlers around func(*params), in order", json_value=hn))
    tb = _tb_next_test(t) if t is not None else None
    out.append(Fact("tbNextTest", "Bool", None if tb is None else lean_bool(tb), ["C05"],
                    "_dispatch: the TypeError handler first tests `sys.exc_info()[2].tb_next is not None` (the handled traceback itself) and then reports a method exception",
                    json_value=tb))
    da = _dotted_allowed(dp) if dp is not None else None
    out.append(Fact("dottedAllowed", "Bool", None if da is None else lean_bool(da), ["C05"],
                    "_dispatch: resolve_dotted_attribute(self.instance, method, True)", json_value=da))
    ho = _handlers_only_report(dp, sd) if (dp is not None and sd is not None) else None
    out.append(Fact("handlersOnlyReport", "Bool", None if ho is None else lean_bool(ho), ["C02", "C05"],
                    "_dispatch / _marshaled_single_dispatch: the handlers around the method call only build, format and log a Fault "
                    "(no call of func / dispatch_method / _dispatch, no loop)", json_value=ho))
    mu = _method_unmodified(dp) if dp is not None else None
    out.append(Fact("methodUnmodified", "Bool", None if mu is None else lean_bool(mu), ["C05"],
                    "_dispatch: `method` and `params` are never rebound; lookups use self.funcs[method] and "
                    "resolve_dotted_attribute(self.instance, method, ..)", json_value=mu))
    return out
