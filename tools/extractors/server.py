"""
Facts about jsonrpclib/SimpleJSONRPCServer.py: the dispatcher (C02, C03, C04, C05).
"""
import ast

from __main__ import Fact, const_num, lean_str, lean_bool, lean_list

PROPERTIES = ["C02", "C03", "C04", "C05"]
MOD = "SimpleJSONRPCServer"
FUNCS = ["validate_request", "SimpleJSONRPCDispatcher._unmarshaled_dispatch", "SimpleJSONRPCDispatcher._marshaled_dispatch",
         "SimpleJSONRPCDispatcher._marshaled_single_dispatch", "SimpleJSONRPCDispatcher._method_exception_fault",
         "SimpleJSONRPCDispatcher._dispatch"]


def _is_fault_call(n):
    return isinstance(n, ast.Call) and (
        (isinstance(n.func, ast.Name) and n.func.id == "Fault") or (isinstance(n.func, ast.Attribute) and n.func.attr == "Fault"))


def _fault_sites(src):
    """(function name, literal code) of every Fault(<literal>, ...) call of the dispatcher, in source order."""
    out = []
    for q in FUNCS:
        fn = src.func(MOD, q)
        if fn is None:
            return None
        calls = [n for n in ast.walk(fn) if _is_fault_call(n)]
        calls.sort(key=lambda n: (n.lineno, n.col_offset))
        for c in calls:
            code = const_num(c.args[0]) if c.args else None
            if code is None:
                for kw in c.keywords:
                    if kw.arg == "code":
                        code = const_num(kw.value)
            if not isinstance(code, int):
                return None
            out.append((q.split(".")[-1], code))
    return out


def _catches_exception(handler):
    t = handler.type
    if t is None:
        return True
    return isinstance(t, ast.Name) and t.id in ("Exception", "BaseException")


def _call_named(node, name):
    for n in ast.walk(node):
        if isinstance(n, ast.Call):
            f = n.func
            if (isinstance(f, ast.Attribute) and f.attr == name) or (isinstance(f, ast.Name) and f.id == name):
                return True
    return False


def _guarded(fn, callee):
    """Is every call of `callee` in `fn` inside the body of a try with an `except Exception` (or wider) handler
    that does not re-raise?  None when there is no such call."""
    found = []

    def visit(node, guarded):
        if isinstance(node, ast.Try):
            g = guarded or any(_catches_exception(h) and not any(isinstance(x, ast.Raise) for s in h.body for x in ast.walk(s))
                               for h in node.handlers)
            for s in node.body:
                visit(s, g)
            for h in node.handlers:
                for s in h.body:
                    visit(s, guarded)
            for s in node.orelse + node.finalbody:
                visit(s, guarded)
            return
        if isinstance(node, ast.Call):
            f = node.func
            if (isinstance(f, ast.Attribute) and f.attr == callee) or (isinstance(f, ast.Name) and f.id == callee):
                found.append(guarded)
        for c in ast.iter_child_nodes(node):
            visit(c, guarded)

    for s in fn.body:
        visit(s, False)
    if not found:
        return None
    return all(found)


def _single_dispatch_handlers(fn):
    """For each `except Exception` handler of _marshaled_single_dispatch, in order:
    (Fault call carries an rpcid keyword, handler returns None under `if is_notification` before answering)."""
    out = []
    tries = [n for n in ast.walk(fn) if isinstance(n, ast.Try)]
    tries.sort(key=lambda n: n.lineno)
    for t in tries:
        for h in t.handlers:
            if not _catches_exception(h):
                continue
            faults = [n for s in h.body for n in ast.walk(s) if _is_fault_call(n)]
            if not faults:
                continue
            has_id = all(any(kw.arg == "rpcid" for kw in f.keywords) for f in faults)
            notif_first = False
            for s in h.body:
                if isinstance(s, ast.If) and isinstance(s.test, ast.Name) and s.test.id == "is_notification":
                    if any(isinstance(x, ast.Return) and (x.value is None or (isinstance(x.value, ast.Constant) and x.value.value is None))
                           for x in s.body):
                        notif_first = True
                        break
                if isinstance(s, ast.Return):
                    break
            out.append((has_id, notif_first))
    return out or None


def _notif_test(fn):
    """`is_notification = "id" not in request or request["id"] in (<constants>)`: the constants, else None."""
    for n in ast.walk(fn):
        if isinstance(n, ast.Assign) and len(n.targets) == 1 and isinstance(n.targets[0], ast.Name) \
                and n.targets[0].id == "is_notification":
            v = n.value
            if not (isinstance(v, ast.BoolOp) and isinstance(v.op, ast.Or) and len(v.values) == 2):
                return None
            a, b = v.values
            ok_a = (isinstance(a, ast.Compare) and len(a.ops) == 1 and isinstance(a.ops[0], ast.NotIn)
                    and isinstance(a.left, ast.Constant) and a.left.value == "id"
                    and isinstance(a.comparators[0], ast.Name) and a.comparators[0].id == "request")
            ok_b = (isinstance(b, ast.Compare) and len(b.ops) == 1 and isinstance(b.ops[0], ast.In)
                    and isinstance(b.left, ast.Subscript) and isinstance(b.left.value, ast.Name) and b.left.value.id == "request"
                    and isinstance(b.left.slice, ast.Constant) and b.left.slice.value == "id"
                    and isinstance(b.comparators[0], (ast.Tuple, ast.List)))
            if not (ok_a and ok_b):
                return None
            vals = []
            for e in b.comparators[0].elts:
                if isinstance(e, ast.Constant) and (e.value is None or isinstance(e.value, str)):
                    vals.append(e.value)
                else:
                    return None
            # membership does not depend on the order of the tuple: canonical order (None first, then strings)
            return sorted(vals, key=lambda v: (v is not None, v or ""))
    return None


def _dispatch_call_try(fn):
    """The try statement of _dispatch whose body calls `func(*params)`."""
    for n in ast.walk(fn):
        if isinstance(n, ast.Try):
            for s in n.body:
                for c in ast.walk(s):
                    if isinstance(c, ast.Call) and isinstance(c.func, ast.Name) and c.func.id == "func":
                        return n
    return None


def _handler_names(t):
    out = []
    for h in t.handlers:
        if h.type is None:
            out.append("<bare>")
        elif isinstance(h.type, ast.Name):
            out.append(h.type.id)
        else:
            out.append("<other>")
    return out


def _tb_next_test(t):
    """In the `except TypeError` handler: `if <...>.tb_next is not None: return self._method_exception_fault(..)`
    placed before the -32602 Fault."""
    for h in t.handlers:
        if isinstance(h.type, ast.Name) and h.type.id == "TypeError":
            for s in h.body:
                if isinstance(s, ast.If):
                    tst = s.test
                    if (isinstance(tst, ast.Compare) and len(tst.ops) == 1 and isinstance(tst.ops[0], ast.IsNot)
                            and isinstance(tst.left, ast.Attribute) and tst.left.attr == "tb_next"
                            and isinstance(tst.comparators[0], ast.Constant) and tst.comparators[0].value is None):
                        returns_exc = any(isinstance(x, ast.Return) and x.value is not None and _call_named(x.value, "_method_exception_fault")
                                          for x in s.body)
                        return returns_exc
                if any(_is_fault_call(x) for x in ast.walk(s)):
                    return False
            return False
    return None


def _dotted_allowed(fn):
    for n in ast.walk(fn):
        if isinstance(n, ast.Call) and isinstance(n.func, ast.Name) and n.func.id == "resolve_dotted_attribute":
            if len(n.args) >= 3 and isinstance(n.args[2], ast.Constant):
                return bool(n.args[2].value)
            for kw in n.keywords:
                if kw.arg == "allow_dotted_names" and isinstance(kw.value, ast.Constant):
                    return bool(kw.value.value)
            return False
    return None


def facts(src):
    out = []
    sites = _fault_sites(src)
    out.append(Fact(
        "faultSites", "List (String × Int)",
        None if sites is None else lean_list(["(%s, (%d : Int))" % (lean_str(f), c) for f, c in sites]),
        ["C02", "C05"], "every Fault(<literal code>, ..) call of the dispatcher with its enclosing function, in source order",
        json_value=sites))
    md = src.func(MOD, "SimpleJSONRPCDispatcher._marshaled_dispatch")
    lg = _guarded(md, "loads") if md is not None else None
    out.append(Fact("loadsGuarded", "Bool", None if lg is None else lean_bool(lg), ["C02", "C05"],
                    "_marshaled_dispatch: the call of loads is inside try/except Exception (no re-raise)", json_value=lg))
    jg = _guarded(md, "jdumps") if md is not None else None
    out.append(Fact("jdumpsGuarded", "Bool", None if jg is None else lean_bool(jg), ["C02"],
                    "_marshaled_dispatch: the final jdumps of the reply is inside try/except Exception (no re-raise)", json_value=jg))
    sd = src.func(MOD, "SimpleJSONRPCDispatcher._marshaled_single_dispatch")
    hs = _single_dispatch_handlers(sd) if sd is not None else None
    out.append(Fact("exceptFaultsCarryId", "List Bool", None if hs is None else lean_list([lean_bool(a) for a, _ in hs]), ["C03"],
                    "_marshaled_single_dispatch: for each `except Exception` handler, the Fault it builds is given rpcid=",
                    json_value=None if hs is None else [a for a, _ in hs]))
    out.append(Fact("exceptPathSilencesNotification", "Bool", None if hs is None else lean_bool(hs[0][1]), ["C04"],
                    "_marshaled_single_dispatch: the handler around the dispatcher call returns None for a notification before answering",
                    json_value=None if hs is None else hs[0][1]))
    nt = _notif_test(sd) if sd is not None else None
    out.append(Fact("notifIds", "List (Option String)",
                    None if nt is None else lean_list(["none" if v is None else "some %s" % lean_str(v) for v in nt]), ["C04", "C03"],
                    "is_notification = \"id\" not in request or request[\"id\"] in (<these constants, in canonical order>)", json_value=nt))
    dp = src.func(MOD, "SimpleJSONRPCDispatcher._dispatch")
    t = _dispatch_call_try(dp) if dp is not None else None
    hn = _handler_names(t) if t is not None else None
    out.append(Fact("dispatchHandlers", "List String", None if hn is None else lean_list([lean_str(x) for x in hn]), ["C05"],
                    "_dispatch: exception classes of the handlers around func(*params), in order", json_value=hn))
    tb = _tb_next_test(t) if t is not None else None
    out.append(Fact("tbNextTest", "Bool", None if tb is None else lean_bool(tb), ["C05"],
                    "_dispatch: the TypeError handler first tests `tb_next is not None` and then reports a method exception",
                    json_value=tb))
    da = _dotted_allowed(dp) if dp is not None else None
    out.append(Fact("dottedAllowed", "Bool", None if da is None else lean_bool(da), ["C05"],
                    "_dispatch: resolve_dotted_attribute(self.instance, method, True)", json_value=da))
    return out
