"""
Facts about WHICH KIND of exception the handlers around a method call catch (C04):

  dispatchCallCatchAll     SimpleJSONRPCDispatcher._dispatch: every `try` whose body makes the method call `func(*params)` /
                           `func(**params)` has a handler that catches every BaseException — a bare `except:` or a clause
                           naming BaseException (alone or in a tuple) — which does not re-raise and whose every path returns.
                           That is why the model's `invoke` treats `CallOutcome.raisedBase` (SystemExit, KeyboardInterrupt,
                           GeneratorExit, …) like any other method exception.
  syncCallCatchAll         SimpleJSONRPCDispatcher._marshaled_single_dispatch: the same for the synchronous call of the dispatch
                           function (`dispatch_method(method, params)` / `self._dispatch(method, params, config)`): the handler
                           around it catches every BaseException (fix 43f3faa) and every path of it returns.  That is why the
                           model's `singleDispatch` turns whatever a custom dispatch function or an instance's `_dispatch`
                           raises — `CallOutcome.raisedBase` included — into a silently dropped Fault for a notification and
                           a −32603 response carrying the id for a call.
  syncCallHandlerClasses   … and the classes that handler chain names, in order ("<bare>" for a bare clause).

Read on the normalised source (tools/extractors/normalise_rpc.py: new private helpers expanded in place, handlers with the
same body merged), so that a behaviour-preserving rewrite — `except BaseException:`, the Fault built by a helper, the two
calls in two `try` statements — gives the same facts.
"""
import ast
import importlib.util
import os
import sys

from __main__ import Fact, lean_bool, lean_list, lean_str


def _load_norm():
    name = "jrv_normalise_rpc"
    if name not in sys.modules:
        spec = importlib.util.spec_from_file_location(
            name, os.path.join(os.path.dirname(os.path.abspath(__file__)), "normalise_rpc.py"))
        mod = importlib.util.module_from_spec(spec)
        sys.modules[name] = mod
        spec.loader.exec_module(mod)
    return sys.modules[name]


norm = _load_norm()

PROPERTIES = ["C04"]
MOD = "SimpleJSONRPCServer"


def _class_names(handler):
    """Classes of an `except` clause: ["<bare>"], or the names it lists ("<other>" for anything that is not a plain name)."""
    t = handler.type
    if t is None:
        return ["<bare>"]
    elts = t.elts if isinstance(t, ast.Tuple) else [t]
    out = []
    for n in elts:
        if isinstance(n, ast.Name):
            out.append(n.id)
        elif isinstance(n, ast.Attribute):
            out.append(n.attr)
        else:
            out.append("<other>")
    return out


def _catches_everything(handler):
    names = _class_names(handler)
    return "<bare>" in names or "BaseException" in names


def _always_returns(stmts):
    """Does every path through the statements end in `return` (no raise, no fall-through)?"""
    for st in stmts:
        if isinstance(st, ast.Return):
            return True
        if isinstance(st, ast.Raise):
            return False
        if isinstance(st, ast.If):
            if st.orelse and _always_returns(st.body) and _always_returns(st.orelse):
                return True
            if any(isinstance(n, ast.Raise) for s in st.body + st.orelse for n in ast.walk(s)):
                return False
        elif isinstance(st, (ast.Try, ast.With, ast.For, ast.While)):
            if any(isinstance(n, ast.Raise) for n in ast.walk(st)):
                return False
    return False


def _tries_around(fn, is_target_call):
    """The `try` statements of fn whose *body* (not handlers) contains a selected call, innermost first."""
    out = []

    def walk(stmts, stack):
        for st in stmts:
            if isinstance(st, ast.Try):
                inner = stack + [st]
                walk(st.body, inner)
                # handlers / else / finally are not protected by this try
                for h in st.handlers:
                    walk(h.body, stack)
                walk(st.orelse, stack)
                walk(st.finalbody, stack)
                continue
            hit = False
            # the statement's own expressions (headers of compound statements included)
            for n in ast.iter_child_nodes(st):
                if isinstance(n, (ast.stmt, ast.ExceptHandler)):
                    continue
                if any(isinstance(c, ast.Call) and is_target_call(c) for c in ast.walk(n)):
                    hit = True
            if isinstance(st, (ast.Expr, ast.Return, ast.Assign, ast.AugAssign, ast.AnnAssign)):
                if any(isinstance(c, ast.Call) and is_target_call(c) for c in ast.walk(st)):
                    hit = True
            if hit:
                out.append(list(reversed(stack)))
            for name in ("body", "orelse", "finalbody"):
                sub = getattr(st, name, None)
                if isinstance(sub, list) and sub and isinstance(sub[0], ast.stmt):
                    walk(sub, stack)
    walk(fn.body, [])
    return out


def _is_method_call(c):
    # func(*params) / func(**params)
    return isinstance(c.func, ast.Name) and (any(isinstance(a, ast.Starred) for a in c.args)
                                             or any(k.arg is None for k in c.keywords))


def _is_dispatcher_call(c):
    # dispatch_method(method, params) / self._dispatch(method, params, config)
    if isinstance(c.func, ast.Name) and c.func.id == "dispatch_method":
        return True
    return isinstance(c.func, ast.Attribute) and c.func.attr == "_dispatch" and isinstance(c.func.value, ast.Name) \
        and c.func.value.id == "self"


def _dispatch_call_catch_all(fn, is_target_call=None):
    sites = _tries_around(fn, is_target_call or _is_method_call)
    if not sites:
        return None
    for stack in sites:
        ok = False
        for t in stack:                       # innermost first: the first clause that takes everything decides
            for h in t.handlers:
                if _catches_everything(h):
                    ok = _always_returns(h.body)
                    break
                # a clause for a narrower class may sit in front (TypeError): it does not take the others away
            else:
                continue
            break
        if not ok:
            return False
    return True


def _sync_call_classes(fn):
    """Classes caught around the synchronous dispatcher call(s); None when the call sites disagree or none is found.  The
    enqueue(...) arguments mention `self._dispatch` without calling it: only calls count."""
    sites = _tries_around(fn, _is_dispatcher_call)
    if not sites:
        return None
    seen = None
    for stack in sites:
        classes = []
        for t in stack:
            for h in t.handlers:
                for n in _class_names(h):
                    if n not in classes:
                        classes.append(n)
        if seen is None:
            seen = classes
        elif seen != classes:
            return None
    return seen


def facts(src):
    src = norm.nsource(src)
    dp = src.func(MOD, "SimpleJSONRPCDispatcher._dispatch")
    sd = src.func(MOD, "SimpleJSONRPCDispatcher._marshaled_single_dispatch")
    ca = None
    if dp is not None:
        ca = _dispatch_call_catch_all(norm.merge_handlers(norm.clone(dp)))
    sc = sa = None
    if sd is not None:
        sc = _sync_call_classes(norm.merge_handlers(norm.clone(sd)))
        sa = _dispatch_call_catch_all(norm.merge_handlers(norm.clone(sd)), _is_dispatcher_call)
    return [
        Fact("dispatchCallCatchAll", "Bool", None if ca is None else lean_bool(ca), ["C04"],
             "_dispatch: the method call func(*params) / func(**params) sits in a try with a handler that catches every "
             "BaseException (bare `except:` or BaseException) and always returns: SystemExit, KeyboardInterrupt, GeneratorExit "
             "raised by a method are reported like any other method exception", json_value=ca),
        Fact("syncCallCatchAll", "Bool", None if sa is None else lean_bool(sa), ["C04"],
             "_marshaled_single_dispatch: the synchronous call dispatch_method(method, params) / self._dispatch(method, params, "
             "config) sits in a try with a handler that catches every BaseException (bare `except:` or BaseException) and always "
             "returns", json_value=sa),
        Fact("syncCallHandlerClasses", "List String", None if sc is None else lean_list([lean_str(x) for x in sc]), ["C04"],
             "_marshaled_single_dispatch: exception classes caught around the synchronous call of the dispatch function "
             "(dispatch_method(method, params) / self._dispatch(method, params, config)), in order", json_value=sc),
    ]
