"""
Facts about what a server does to its ADDRESS when it is closed, and what the failure path of a constructor finds (C12,
model JRV.Model.ServerContend):

  plainServerCloseExtra        SimpleJSONRPCServer.server_close: what it does besides the base class's server_close (which closes
                               the server's own listening socket): `[]` when the method is not overridden or only delegates.
                               Anything else — removing the socket file, touching a registry of addresses — is a step the model's
                               `closeSocket` / `bStep` does not make.
  pooledInitStoresBeforeBase   PooledJSONRPCServer.__init__: the request pool and the serving flag are stored BEFORE the base
                               class constructor runs — `socketserver.TCPServer.__init__` calls `self.server_close()` when
                               `server_bind()` fails (a second server on a busy address), and `server_close` reads both.

Read on the normalised source (tools/extractors/normalise_rpc.py).
"""
import ast
import importlib.util
import os
import sys

from __main__ import Fact, lean_bool, lean_list, lean_str


def _load_norm():
    name = "jrv_normalise_rpc"
    if name not in sys.modules:
        spec = importlib.util.spec_from_file_location(
            name, os.path.join(os.path.dirname(os.path.abspath(__file__)), "normalise_rpc.py"))
        mod = importlib.util.module_from_spec(spec)
        sys.modules[name] = mod
        spec.loader.exec_module(mod)
    return sys.modules[name]


norm = _load_norm()

PROPERTIES = ["C12"]
MOD = "SimpleJSONRPCServer"


def _method(cls, name):
    if cls is None:
        return None
    for m in cls.body:
        if isinstance(m, ast.FunctionDef) and m.name == name:
            return m
    return None


def _is_base_call(call, name):
    """`<Base>.name(self, ..)` / `super().name(..)` / `super(C, self).name(..)`"""
    f = call.func
    if not (isinstance(f, ast.Attribute) and f.attr == name):
        return False
    v = f.value
    if isinstance(v, ast.Call) and isinstance(v.func, ast.Name) and v.func.id == "super":
        return True
    if isinstance(v, (ast.Name, ast.Attribute)) and not (isinstance(v, ast.Name) and v.id == "self"):
        return bool(call.args) and isinstance(call.args[0], ast.Name) and call.args[0].id == "self"
    return False


def _close_extra(fn):
    """Everything `server_close` does besides delegating to the base class: calls (by name, with the guard they sit under),
    and statements that are not calls."""
    out = []

    def walk(stmts, guard):
        for st in stmts:
            if isinstance(st, ast.Expr) and isinstance(st.value, ast.Constant):
                continue                      # docstring
            if isinstance(st, ast.Pass):
                continue
            if isinstance(st, (ast.Expr, ast.Return)) and isinstance(st.value, ast.Call):
                if _is_base_call(st.value, "server_close"):
                    continue
                out.append(guard + ast.unparse(st.value.func))
            elif isinstance(st, ast.Return) and st.value is None:
                continue
            elif isinstance(st, ast.If):
                g = guard + "if(%s):" % ast.unparse(st.test)
                walk(st.body, g)
                walk(st.orelse, guard + "else(%s):" % ast.unparse(st.test))
            elif isinstance(st, ast.Try):
                walk(st.body, guard + "try:")
                for h in st.handlers:
                    walk(h.body, guard + "except:")
                walk(st.orelse, guard)
                walk(st.finalbody, guard + "finally:")
            elif isinstance(st, ast.With):
                walk(st.body, guard + "with:")
            else:
                out.append(guard + "stmt:" + type(st).__name__)
    walk(fn.body, "")
    return out


def _stores_before_base(fn):
    """Are attributes of self whose names end in `request_pool` and `serving` assigned before the first base-class __init__ call?"""
    seen = set()
    for st in fn.body:
        for n in ast.walk(st):
            if isinstance(n, ast.Call) and _is_base_call(n, "__init__"):
                return any("request_pool" in a for a in seen) and any("serving" in a for a in seen)
        if isinstance(st, (ast.Assign, ast.AnnAssign)):
            targets = st.targets if isinstance(st, ast.Assign) else [st.target]
            for t in targets:
                if isinstance(t, ast.Attribute) and isinstance(t.value, ast.Name) and t.value.id == "self":
                    seen.add(t.attr)
    return None


def facts(src):
    src = norm.nsource(src)
    plain = src.klass(MOD, "SimpleJSONRPCServer")
    pooled = src.klass(MOD, "PooledJSONRPCServer")
    extra = None
    if plain is not None:
        m = _method(plain, "server_close")
        extra = [] if m is None else _close_extra(norm.clone(m))
    init = _method(pooled, "__init__")
    sb = _stores_before_base(init) if init is not None else None
    return [
        Fact("plainServerCloseExtra", "List String", None if extra is None else lean_list([lean_str(x) for x in extra]), ["C12"],
             "SimpleJSONRPCServer.server_close: calls / statements besides the base class's server_close ([] when not overridden)",
             json_value=extra),
        Fact("pooledInitStoresBeforeBase", "Bool", None if sb is None else lean_bool(sb), ["C12"],
             "PooledJSONRPCServer.__init__ stores the request pool and the serving flag before it runs the base constructor "
             "(whose failure path calls self.server_close())", json_value=sb),
    ]
