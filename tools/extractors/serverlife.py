"""
Facts about PooledJSONRPCServer's life cycle methods and the catch-all handlers of the serve path (C12).
"""
import ast

from __main__ import Fact, lean_bool, lean_list, lean_str

import importlib.util
import os
import sys


def _load_norm():
    """tools/extractors/normalise_rpc.py, loaded once per process under a name of its own (sys.path is left alone)."""
    name = "jrv_normalise_rpc"
    if name not in sys.modules:
        spec = importlib.util.spec_from_file_location(
            name, os.path.join(os.path.dirname(os.path.abspath(__file__)), "normalise_rpc.py"))
        mod = importlib.util.module_from_spec(spec)
        sys.modules[name] = mod
        spec.loader.exec_module(mod)
    return sys.modules[name]


norm = _load_norm()


PROPERTIES = ["C12"]


def _call_desc(call):
    f = call.func
    if isinstance(f, ast.Attribute):
        # SimpleJSONRPCServer.shutdown(self) / self.__request_pool.stop()
        if isinstance(f.value, ast.Attribute) and "pool" in f.value.attr:
            return "pool." + f.attr
        return f.attr
    if isinstance(f, ast.Name):
        return f.id
    return "?"


def _flatten(stmts):
    """Statements in execution order; `try: A finally: B` (no handlers, no else) runs A then B — the same calls in the
    same order as the plain sequence when nothing raises, and B even when A raises: it is read as A; B."""
    out = []
    for st in stmts:
        if isinstance(st, ast.Try) and not st.handlers and not st.orelse:
            out.extend(_flatten(st.body))
            out.extend(_flatten(st.finalbody))
        else:
            out.append(st)
    return out


def _server_close(fn):
    """Sequence of calls of server_close; a call guarded by `if self.__serving` is prefixed with 'if-serving:'."""
    out = []
    # canonical form: `if not serving: pass else: shutdown` (an expanded guard clause) is `if serving: shutdown`
    fn = norm.negation_normal(norm.clone(fn))
    for st in _flatten(fn.body):
        if isinstance(st, ast.Expr) and isinstance(st.value, ast.Call):
            out.append(_call_desc(st.value))
        elif isinstance(st, ast.If):
            guard = ast.unparse(st.test)
            tag = "if-serving:" if "serving" in guard and not isinstance(st.test, ast.UnaryOp) else "if(%s):" % guard
            for s2 in _flatten(st.body):
                if isinstance(s2, ast.Expr) and isinstance(s2.value, ast.Call):
                    out.append(tag + _call_desc(s2.value))
                elif not (isinstance(s2, ast.Expr) and isinstance(s2.value, ast.Constant)) and not isinstance(s2, ast.Pass):
                    out.append(tag + "stmt:" + type(s2).__name__)
            for s2 in _flatten(st.orelse):
                if isinstance(s2, ast.Expr) and isinstance(s2.value, ast.Call):
                    out.append("else:" + _call_desc(s2.value))
                elif not isinstance(s2, ast.Pass):
                    out.append("else:stmt:" + type(s2).__name__)
        elif isinstance(st, ast.Expr) and isinstance(st.value, ast.Constant):
            continue  # docstring
        elif isinstance(st, ast.Pass):
            continue
        else:
            out.append("stmt:" + type(st).__name__)
    return out


def _catches_everything(handler):
    """`except:` or `except BaseException [as e]:` (alone or in a tuple)."""
    t = handler.type
    if t is None:
        return True
    names = t.elts if isinstance(t, ast.Tuple) else [t]
    return any(isinstance(n, ast.Name) and n.id == "BaseException" for n in names)


def _guarded_by_catch_all(fn, is_target_call):
    """Does a `try` of `fn` whose *body* contains a call selected by `is_target_call` have a handler that catches every
    BaseException and does not re-raise it bare?  None when no such call sits in a try body."""
    found = None
    for node in ast.walk(fn):
        if not isinstance(node, ast.Try):
            continue
        inside = any(isinstance(n, ast.Call) and is_target_call(n) for st in node.body for n in ast.walk(st))
        if not inside:
            continue
        ok = False
        for h in node.handlers:
            if _catches_everything(h):
                reraises = any(isinstance(n, ast.Raise) and n.exc is None for st in h.body for n in ast.walk(st))
                ok = not reraises
                break
        found = ok if found is None else (found or ok)
    return found


def _catch_all(src):
    """(the method call in _dispatch, the whole exchange in do_POST) are guarded by a handler catching BaseException"""
    disp = src.func("SimpleJSONRPCServer", "SimpleJSONRPCDispatcher._dispatch")
    post = src.func("SimpleJSONRPCServer", "SimpleJSONRPCRequestHandler.do_POST")
    if disp is None or post is None:
        return None

    def is_method_call(c):
        # func(*params) / func(**params)
        return isinstance(c.func, ast.Name) and (any(isinstance(a, ast.Starred) for a in c.args)
                                                 or any(k.arg is None for k in c.keywords))

    def is_dispatch_call(c):
        return isinstance(c.func, ast.Attribute) and c.func.attr == "_marshaled_dispatch"

    a = _guarded_by_catch_all(disp, is_method_call)
    b = _guarded_by_catch_all(post, is_dispatch_call)
    if a is None or b is None:
        return None
    return (a, b)


def _serve_flag(fn):
    """(flag set to True before the base serve_forever call, flag reset to False in a finally)"""
    set_true = reset_finally = False
    for st in fn.body:
        if isinstance(st, ast.Assign) and isinstance(st.value, ast.Constant) and st.value.value is True \
                and any(isinstance(t, ast.Attribute) and "serving" in t.attr for t in st.targets):
            set_true = True
        if isinstance(st, ast.Try):
            calls_base = any(isinstance(m, ast.Attribute) and m.attr == "serve_forever" for s in st.body for m in ast.walk(s))
            for s in st.finalbody:
                if isinstance(s, ast.Assign) and isinstance(s.value, ast.Constant) and s.value.value is False \
                        and any(isinstance(t, ast.Attribute) and "serving" in t.attr for t in s.targets):
                    reset_finally = calls_base
    return set_true, reset_finally


def facts(src):
    src = norm.nsource(src)
    cls = src.klass("SimpleJSONRPCServer", "PooledJSONRPCServer")
    close = serve = proc = None
    if cls is not None:
        for m in cls.body:
            if isinstance(m, ast.FunctionDef):
                if m.name == "server_close":
                    close = m
                elif m.name == "serve_forever":
                    serve = m
                elif m.name == "process_request":
                    proc = m
    sc = _server_close(close) if close is not None else None
    sf = _serve_flag(serve) if serve is not None else None
    pr = None
    if proc is not None:
        pr = any(isinstance(n, ast.Call) and isinstance(n.func, ast.Attribute) and n.func.attr == "enqueue" for n in ast.walk(proc))
    ca = _catch_all(src)
    return [
        Fact("servePathCatchAll", "Bool × Bool", None if ca is None else "(%s, %s)" % (lean_bool(ca[0]), lean_bool(ca[1])), ["C12"],
             "the `try` around the method call in _dispatch / around the exchange in do_POST has a handler catching every "
             "BaseException (bare `except:`) that does not re-raise", json_value=ca),
        Fact("pooledServerClose", "List String", None if sc is None else lean_list([lean_str(x) for x in sc]), ["C12"],
             "PooledJSONRPCServer.server_close: calls in order", json_value=sc),
        Fact("pooledServeForeverSetsFlag", "Bool × Bool", None if sf is None else "(%s, %s)" % (lean_bool(sf[0]), lean_bool(sf[1])), ["C12"],
             "PooledJSONRPCServer.serve_forever sets the serving flag before and resets it in a finally after the base loop", json_value=sf),
        Fact("pooledProcessRequestEnqueues", "Bool", None if pr is None else lean_bool(pr), ["C12"],
             "process_request hands the connection to the request pool", json_value=pr),
    ]
