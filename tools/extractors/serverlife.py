"""
Facts about PooledJSONRPCServer's life cycle methods (C12).
"""
import ast

from __main__ import Fact, lean_bool, lean_list, lean_str

PROPERTIES = ["C12"]


def _call_desc(call):
    f = call.func
    if isinstance(f, ast.Attribute):
        # SimpleJSONRPCServer.shutdown(self) / self.__request_pool.stop()
        if isinstance(f.value, ast.Attribute) and "pool" in f.value.attr:
            return "pool." + f.attr
        return f.attr
    if isinstance(f, ast.Name):
        return f.id
    return "?"


def _server_close(fn):
    """Sequence of calls of server_close; a call guarded by `if self.__serving` is prefixed with 'if-serving:'."""
    out = []
    for st in fn.body:
        if isinstance(st, ast.Expr) and isinstance(st.value, ast.Call):
            out.append(_call_desc(st.value))
        elif isinstance(st, ast.If):
            guard = ast.unparse(st.test)
            tag = "if-serving:" if "serving" in guard and not isinstance(st.test, ast.UnaryOp) else "if(%s):" % guard
            for s2 in st.body:
                if isinstance(s2, ast.Expr) and isinstance(s2.value, ast.Call):
                    out.append(tag + _call_desc(s2.value))
            for s2 in st.orelse:
                if isinstance(s2, ast.Expr) and isinstance(s2.value, ast.Call):
                    out.append("else:" + _call_desc(s2.value))
        elif isinstance(st, ast.Expr) and isinstance(st.value, ast.Constant):
            continue  # docstring
        else:
            out.append("stmt:" + type(st).__name__)
    return out


def _serve_flag(fn):
    """(flag set to True before the base serve_forever call, flag reset to False in a finally)"""
    set_true = reset_finally = False
    for st in fn.body:
        if isinstance(st, ast.Assign) and isinstance(st.value, ast.Constant) and st.value.value is True \
                and any(isinstance(t, ast.Attribute) and "serving" in t.attr for t in st.targets):
            set_true = True
        if isinstance(st, ast.Try):
            calls_base = any(isinstance(m, ast.Attribute) and m.attr == "serve_forever" for s in st.body for m in ast.walk(s))
            for s in st.finalbody:
                if isinstance(s, ast.Assign) and isinstance(s.value, ast.Constant) and s.value.value is False \
                        and any(isinstance(t, ast.Attribute) and "serving" in t.attr for t in s.targets):
                    reset_finally = calls_base
    return set_true, reset_finally


def facts(src):
    cls = src.klass("SimpleJSONRPCServer", "PooledJSONRPCServer")
    close = serve = proc = None
    if cls is not None:
        for m in cls.body:
            if isinstance(m, ast.FunctionDef):
                if m.name == "server_close":
                    close = m
                elif m.name == "serve_forever":
                    serve = m
                elif m.name == "process_request":
                    proc = m
    sc = _server_close(close) if close is not None else None
    sf = _serve_flag(serve) if serve is not None else None
    pr = None
    if proc is not None:
        pr = any(isinstance(n, ast.Call) and isinstance(n.func, ast.Attribute) and n.func.attr == "enqueue" for n in ast.walk(proc))
    return [
        Fact("pooledServerClose", "List String", None if sc is None else lean_list([lean_str(x) for x in sc]), ["C12"],
             "PooledJSONRPCServer.server_close: calls in order", json_value=sc),
        Fact("pooledServeForeverSetsFlag", "Bool × Bool", None if sf is None else "(%s, %s)" % (lean_bool(sf[0]), lean_bool(sf[1])), ["C12"],
             "PooledJSONRPCServer.serve_forever sets the serving flag before and resets it in a finally after the base loop", json_value=sf),
        Fact("pooledProcessRequestEnqueues", "Bool", None if pr is None else lean_bool(pr), ["C12"],
             "process_request hands the connection to the request pool", json_value=pr),
    ]
