"""
Facts about the text layer in front of the dispatcher (C05, C02): how the standard-library handler of
jsonrpclib/jsonlib.py parses, and what `jsonrpclib.jsonrpc.loads` hands to it.

The model (lean/JRV/Model/JsonText.lean) is the RFC 8259 grammar, i.e. `json.loads` with its default (strict) settings,
applied to the whole body except the empty one.
"""
import ast

from __main__ import Fact, lean_bool

PROPERTIES = ["C05", "C02"]


def _is_json_loads(node):
    return isinstance(node, ast.Attribute) and node.attr == "loads" and isinstance(node.value, ast.Name) and node.value.id == "json"


def _plain_wrapper(fn):
    """A local `def f(x): return json.loads(x)` / `lambda x: json.loads(x)`: one call, the parameter itself as the only
    argument, no keyword (strict=…, parse_constant=…, cls=…, object_hook=… would change what is accepted or returned)."""
    if isinstance(fn, ast.Lambda):
        args, body = fn.args, fn.body
    elif isinstance(fn, ast.FunctionDef):
        stmts = [s for s in fn.body if not (isinstance(s, ast.Expr) and isinstance(s.value, ast.Constant))]
        if len(stmts) != 1 or not isinstance(stmts[0], ast.Return) or stmts[0].value is None:
            return False
        args, body = fn.args, stmts[0].value
    else:
        return False
    if args.vararg or args.kwarg or args.kwonlyargs or args.defaults or len(args.args) != 1:
        return False
    return (isinstance(body, ast.Call) and _is_json_loads(body.func) and not body.keywords and len(body.args) == 1
            and isinstance(body.args[0], ast.Name) and body.args[0].id == args.args[0].arg)


def _stdlib_loads_plain(fn):
    """JsonHandler.get_methods: the loader of every returned pair is `json.loads` itself or a plain wrapper of it."""
    local = {}
    for n in ast.walk(fn):
        if isinstance(n, ast.FunctionDef) and n is not fn:
            local[n.name] = n
        elif isinstance(n, ast.Assign) and len(n.targets) == 1 and isinstance(n.targets[0], ast.Name):
            local[n.targets[0].id] = n.value
    rets = []
    inner = set()
    for n in ast.walk(fn):
        if isinstance(n, (ast.FunctionDef, ast.Lambda)) and n is not fn:
            inner.update(id(x) for x in ast.walk(n) if x is not n)
    for n in ast.walk(fn):
        if isinstance(n, ast.Return) and id(n) not in inner:
            rets.append(n)
    if not rets:
        return None
    for r in rets:
        v = r.value
        if not isinstance(v, ast.Tuple) or len(v.elts) != 2:
            return False
        ld = v.elts[0]
        if _is_json_loads(ld):
            continue
        if isinstance(ld, ast.Name) and ld.id in local and (_plain_wrapper(local[ld.id]) or _is_json_loads(local[ld.id])):
            continue
        if isinstance(ld, ast.Lambda) and _plain_wrapper(ld):
            continue
        return False
    # nothing in the method may re-configure the json module
    for n in ast.walk(fn):
        if isinstance(n, (ast.Assign, ast.AugAssign)):
            for t in (n.targets if isinstance(n, ast.Assign) else [n.target]):
                if isinstance(t, ast.Attribute) and isinstance(t.value, ast.Name) and t.value.id == "json":
                    return False
    return True


def _loads_shape(fn):
    """jsonrpc.loads(data, config): (`if data == "": return None` comes first, `jloads` is called exactly once, on the
    parameter `data` itself, which is never rebound)."""
    if not fn.args.args:
        return None
    data = fn.args.args[0].arg
    stmts = [s for s in fn.body if not (isinstance(s, ast.Expr) and isinstance(s.value, ast.Constant))]
    empty_first = False
    if stmts and isinstance(stmts[0], ast.If) and not stmts[0].orelse:
        t = stmts[0].test
        if (isinstance(t, ast.Compare) and len(t.ops) == 1 and isinstance(t.ops[0], ast.Eq) and isinstance(t.left, ast.Name)
                and t.left.id == data and isinstance(t.comparators[0], ast.Constant) and t.comparators[0].value == ""):
            body = [s for s in stmts[0].body if not (isinstance(s, ast.Expr) and isinstance(s.value, ast.Constant))]
            if len(body) == 1 and isinstance(body[0], ast.Return) and (
                    body[0].value is None or (isinstance(body[0].value, ast.Constant) and body[0].value.value is None)):
                empty_first = True
    calls = [n for n in ast.walk(fn) if isinstance(n, ast.Call) and (
        (isinstance(n.func, ast.Name) and n.func.id == "jloads") or (isinstance(n.func, ast.Attribute) and n.func.attr == "jloads"))]
    whole = (len(calls) == 1 and len(calls[0].args) == 1 and not calls[0].keywords and isinstance(calls[0].args[0], ast.Name)
             and calls[0].args[0].id == data)
    for n in ast.walk(fn):
        targets = []
        if isinstance(n, ast.Assign):
            targets = n.targets
        elif isinstance(n, (ast.AugAssign, ast.AnnAssign, ast.NamedExpr)):
            targets = [n.target]
        for t in targets:
            for x in ast.walk(t):
                if isinstance(x, ast.Name) and x.id == data:
                    whole = False
    return empty_first, whole


def _empty_body_rejected(fn):
    """_marshaled_dispatch(self, data, ..): the try statement whose body calls `loads` has an `except Exception` handler that
    does not re-raise, and a statement of that body *before* the one calling loads is `if not <data>: raise <exception>`
    (no else branch; `<data>` is the method's first parameter, never rebound before)."""
    params = [a.arg for a in fn.args.args if a.arg != "self"]
    if not params:
        return None
    data = params[0]

    def calls_loads(node):
        return any(isinstance(c, ast.Call) and ((isinstance(c.func, ast.Attribute) and c.func.attr == "loads")
                                                or (isinstance(c.func, ast.Name) and c.func.id == "loads")) for c in ast.walk(node))

    for t in (n for n in ast.walk(fn) if isinstance(n, ast.Try)):
        idx = [i for i, st in enumerate(t.body) if calls_loads(st)]
        if not idx:
            continue
        handled = any((h.type is None or (isinstance(h.type, ast.Name) and h.type.id in ("Exception", "BaseException")))
                      and not any(isinstance(x, ast.Raise) for st in h.body for x in ast.walk(st)) for h in t.handlers)
        if not handled:
            return False
        for st in t.body[:idx[0]]:
            if (isinstance(st, ast.If) and not st.orelse and isinstance(st.test, ast.UnaryOp) and isinstance(st.test.op, ast.Not)
                    and isinstance(st.test.operand, ast.Name) and st.test.operand.id == data
                    and st.body and isinstance(st.body[-1], ast.Raise) and st.body[-1].exc is not None):
                # `data` must not have been rebound before the test
                before = [x for x in fn.body if x.lineno < t.lineno]
                for b in before:
                    for n in ast.walk(b):
                        if isinstance(n, ast.Assign) and any(isinstance(x, ast.Name) and x.id == data for tg in n.targets for x in ast.walk(tg)):
                            return False
                return True
        return False
    return None


def facts(src):
    out = []
    gm = src.func("jsonlib", "JsonHandler.get_methods")
    sp = _stdlib_loads_plain(gm) if gm is not None else None
    out.append(Fact("stdlibLoadsPlain", "Bool", None if sp is None else lean_bool(sp), ["C05", "C02", "C04"],
                    "jsonlib.JsonHandler.get_methods: the loader is json.loads itself (or a wrapper that passes its one argument "
                    "and no keyword): the parser runs with its default, strict settings", json_value=sp))
    ld = src.func("jsonrpc", "loads")
    sh = _loads_shape(ld) if ld is not None else None
    md = src.func("SimpleJSONRPCServer", "SimpleJSONRPCDispatcher._marshaled_dispatch")
    eb = _empty_body_rejected(md) if md is not None else None
    out.append(Fact("emptyBodyRejectedInParseTry", "Bool", None if eb is None else lean_bool(eb), ["C05", "C02"],
                    "_marshaled_dispatch: inside the try around loads (except Exception -> Fault -32700, no re-raise), before loads "
                    "is called, `if not data: raise ...` — the empty body takes the parse-failure handler", json_value=eb))
    out.append(Fact("loadsParsesWholeBody", "Bool", None if sh is None else lean_bool(sh[1]), ["C05", "C02", "C04"],
                    "jsonrpc.loads: jloads is called once, on the parameter `data` itself, which is never rebound (no strip / "
                    "slice / decode in front of the parser)", json_value=None if sh is None else sh[1]))
    return out
