"""
Facts about TransportMixIn.single_request / ServerProxy._run_request (C19).

The facts describe semantics, not the literal shape: local one-step aliases (`status = response.status`,
`conn = self`, `length = response.getheader(...)`) and reordered independent statements do not change them.
"""
import ast

from __main__ import Fact, lean_bool, lean_list

import importlib.util
import os
import sys


def _load_norm():
    """tools/extractors/normalise_rpc.py, loaded once per process under a name of its own (sys.path is left alone)."""
    name = "jrv_normalise_rpc"
    if name not in sys.modules:
        spec = importlib.util.spec_from_file_location(
            name, os.path.join(os.path.dirname(os.path.abspath(__file__)), "normalise_rpc.py"))
        mod = importlib.util.module_from_spec(spec)
        sys.modules[name] = mod
        spec.loader.exec_module(mod)
    return sys.modules[name]


norm = _load_norm()


PROPERTIES = ["C19"]


def _aliases(fn):
    """name -> value node of its (single) plain assignment `name = <expr>` anywhere in the function."""
    seen, dup = {}, set()
    for n in ast.walk(fn):
        if isinstance(n, ast.Assign) and len(n.targets) == 1 and isinstance(n.targets[0], ast.Name):
            k = n.targets[0].id
            if k in seen:
                dup.add(k)
            seen[k] = n.value
    for k in dup:
        seen.pop(k, None)
    return seen


def _resolve(node, al):
    """One step of alias resolution."""
    if isinstance(node, ast.Name) and node.id in al:
        return al[node.id]
    return node


def _is_self_close(node, al):
    if not (isinstance(node, ast.Call) and isinstance(node.func, ast.Attribute) and node.func.attr == "close"):
        return False
    obj = _resolve(node.func.value, al)
    return isinstance(obj, ast.Name) and obj.id == "self"


def _exchange_try(fn):
    """The try statement of single_request whose body performs the exchange (calls getresponse)."""
    for n in ast.walk(fn):
        if isinstance(n, ast.Try):
            if any(isinstance(m, ast.Attribute) and m.attr == "getresponse" for s in n.body for m in ast.walk(s)):
                return n
    return None


def _closes_on_error(fn):
    """single_request: a bare / `Exception` / `BaseException` handler around the exchange (send + getresponse + parse)
    that calls self.close() and re-raises."""
    al = _aliases(fn)
    t = _exchange_try(fn)
    if t is None:
        return None
    sends = any(isinstance(m, ast.Attribute) and m.attr in ("send_request", "send_content") for s in t.body for m in ast.walk(s))
    for h in t.handlers:
        if h.type is None or set(norm.handler_classes(h)) & set(("Exception", "BaseException")):
            closes = any(_is_self_close(m, al) for s in h.body for m in ast.walk(s))
            reraises = any(isinstance(s, ast.Raise) and s.exc is None for s in h.body)
            return bool(closes and reraises and sends)
    return False


def _success_statuses(fn):
    """The statuses for which single_request returns the parsed response: `<resp>.status == 200` -> [200];
    `in (200, 202)` -> [200, 202]; anything else -> None."""
    al = _aliases(fn)
    t = _exchange_try(fn)
    if t is None:
        return None
    found = []
    for n in ast.walk(t):
        if isinstance(n, ast.If):
            # only returns in the `if` body count
            returns_parsed = any(isinstance(s, ast.Return) and s.value is not None and any(
                isinstance(m, ast.Attribute) and m.attr == "parse_response" for m in ast.walk(_resolve(s.value, al)))
                for b in n.body for s in ast.walk(b))
            if not returns_parsed:
                continue
            test = n.test
            if not (isinstance(test, ast.Compare) and len(test.ops) == 1 and len(test.comparators) == 1):
                return None
            left, op, right = _resolve(test.left, al), test.ops[0], _resolve(test.comparators[0], al)

            def is_status(x):
                return isinstance(x, ast.Attribute) and x.attr == "status"

            def num(x):
                return x.value if isinstance(x, ast.Constant) and type(x.value) is int else None
            if isinstance(op, ast.Eq):
                if is_status(left) and num(right) is not None:
                    found.append([num(right)])
                elif is_status(right) and num(left) is not None:
                    found.append([num(left)])
                else:
                    return None
            elif isinstance(op, ast.In) and is_status(left) and isinstance(right, (ast.Tuple, ast.List, ast.Set)):
                vals = [num(e) for e in right.elts]
                if any(v is None for v in vals):
                    return None
                found.append(sorted(set(vals)))
            else:
                return None
    # a return of the parsed response outside any such `if` means every status is accepted
    for s in ast.walk(t):
        if isinstance(s, ast.Return) and s.value is not None and any(
                isinstance(m, ast.Attribute) and m.attr == "parse_response" for m in ast.walk(_resolve(s.value, al))):
            inside = False
            for n in ast.walk(t):
                if isinstance(n, ast.If) and any(s is x for b in n.body for x in ast.walk(b)):
                    inside = True
            if not inside:
                return None
    if len(found) != 1:
        return None
    return found[0]


def _length_if(fn):
    """The `if` (after the exchange) testing the announced Content-Length of the non-200 reply."""
    al = _aliases(fn)
    for n in ast.walk(fn):
        if isinstance(n, ast.If):
            test = n.test
            nodes = list(ast.walk(test)) + [m for x in ast.walk(test) for m in ast.walk(_resolve(x, al))]
            if any(isinstance(m, ast.Constant) and isinstance(m.value, str) and m.value.lower() == "content-length" for m in nodes):
                return n
    return None


def _drains_when_length(fn):
    """`if response.getheader("content-length", …): response.read()` before raising TransportError."""
    n = _length_if(fn)
    if n is None:
        raises_te = any(isinstance(m, ast.Name) and m.id == "TransportError" for m in ast.walk(fn))
        return False if raises_te else None
    return any(isinstance(m, ast.Call) and isinstance(m.func, ast.Attribute) and m.func.attr == "read"
               for s in n.body for m in ast.walk(s))


def _closes_when_no_length(fn):
    """Whether the `else` of that test closes the connection (`self.close()`); False when there is no else."""
    al = _aliases(fn)
    n = _length_if(fn)
    if n is None:
        raises_te = any(isinstance(m, ast.Name) and m.id == "TransportError" for m in ast.walk(fn))
        return False if raises_te else None
    return any(_is_self_close(m, al) for s in n.orelse for m in ast.walk(s))


def _response_names(fn):
    """Names bound to the result of `<connection>.getresponse()`."""
    names = set()
    for n in ast.walk(fn):
        if isinstance(n, ast.Assign) and isinstance(n.value, ast.Call) and isinstance(n.value.func, ast.Attribute) \
                and n.value.func.attr == "getresponse":
            for t in n.targets:
                if isinstance(t, ast.Name):
                    names.add(t.id)
    return names


def _closes_response_unread(fn):
    """Whether the non-200 path (the statements after the exchange `try`) can close the response object without having
    read it: a `<response>.close()` that is not preceded, at the top level of that path, by an unconditional
    `<response>.read()`.  A response closed unread makes http.client consider the connection idle while bytes of that
    exchange may still arrive on it; left open it is `pending` (the model), read to its length it is complete."""
    t = _exchange_try(fn)
    if t is None or t not in fn.body:
        return None
    resp = _response_names(fn)
    if not resp:
        return None
    al = _aliases(fn)

    def on_response(call, attr):
        if not (isinstance(call, ast.Call) and isinstance(call.func, ast.Attribute) and call.func.attr == attr):
            return False
        obj = call.func.value
        if isinstance(obj, ast.Name) and obj.id in resp:
            return True
        obj = _resolve(obj, al)
        return isinstance(obj, ast.Name) and obj.id in resp

    def scan(stmts, read):
        """-> (a close of the unread response is reachable, the response has been read on every path through stmts)"""
        for st in stmts:
            if isinstance(st, ast.If):
                if any(on_response(m, "close") for m in ast.walk(st.test)) and not read:
                    return True, read
                if any(on_response(m, "read") for m in ast.walk(st.test)):
                    read = True
                bad1, r1 = scan(st.body, read)
                bad2, r2 = scan(st.orelse, read)
                if bad1 or bad2:
                    return True, read
                read = r1 and r2
            elif isinstance(st, (ast.Try, ast.With, ast.For, ast.While)):
                for field in ("body", "orelse", "finalbody"):
                    bad, _r = scan(getattr(st, field, []) or [], read)
                    if bad:
                        return True, read
                for h in getattr(st, "handlers", []):
                    bad, _r = scan(h.body, read)
                    if bad:
                        return True, read
            else:
                if any(on_response(m, "close") for m in ast.walk(st)) and not read:
                    return True, read
                if any(on_response(m, "read") for m in ast.walk(st)):
                    read = True
        return False, read

    return scan(fn.body[fn.body.index(t) + 1:], False)[0]


_BODY_READERS = ("read", "read1", "readline", "readlines", "readinto", "readinto1", "peek")


def _error_body_unused(fn):
    """single_request never USES the bytes of a reply body itself: every `<response>.read…()` call is a statement of its
    own (the value is dropped) or is assigned to a name that is never read afterwards.  (The 200 path hands the response
    object to parse_response, which is not a read here.)  True also when there is no such call at all."""
    resp = _response_names(fn)
    if not resp:
        return None
    al = _aliases(fn)

    def is_body_read(call):
        if not (isinstance(call, ast.Call) and isinstance(call.func, ast.Attribute) and call.func.attr in _BODY_READERS):
            return False
        obj = call.func.value
        if isinstance(obj, ast.Name) and obj.id in resp:
            return True
        obj = _resolve(obj, al)
        return isinstance(obj, ast.Name) and obj.id in resp

    reads = [n for n in ast.walk(fn) if is_body_read(n)]
    dropped = set()
    bound = set()
    for st in ast.walk(fn):
        if isinstance(st, ast.Expr) and any(st.value is r for r in reads):
            dropped.add(id(st.value))
        elif isinstance(st, ast.Assign) and any(st.value is r for r in reads) \
                and all(isinstance(t, ast.Name) for t in st.targets):
            dropped.add(id(st.value))
            bound.update(t.id for t in st.targets)
        elif isinstance(st, ast.AnnAssign) and any(st.value is r for r in reads) and isinstance(st.target, ast.Name):
            dropped.add(id(st.value))
            bound.add(st.target.id)
    if any(id(r) not in dropped for r in reads):
        return False
    for n in ast.walk(fn):
        if isinstance(n, ast.Name) and n.id in bound and isinstance(n.ctx, ast.Load):
            return False
    return True


def _all_defs(tree, name):
    """Every `def name` anywhere in a module (both branches of version tests: a lenient decoder in either is a finding)."""
    return [n for n in ast.walk(tree) if isinstance(n, ast.FunctionDef) and n.name == name] if tree is not None else []


def _lenient_decodes(fn):
    """The bytes->text conversions of a function that name an error handler other than "strict" (or one that is not a
    literal): `x.decode(enc, errors)`, `str(x, enc, errors)`, `codecs.decode(x, enc, errors)`, `errors=` given by keyword
    to any call.  -> (number of conversions seen, number of lenient ones)."""
    seen = lenient = 0
    for c in ast.walk(fn):
        if not isinstance(c, ast.Call):
            continue
        f = c.func
        err = None
        conv = False
        if isinstance(f, ast.Attribute) and f.attr == "decode":
            conv = True
            # bytes.decode(encoding, errors) / codecs.decode(obj, encoding, errors)
            pos = 2 if (isinstance(f.value, ast.Name) and f.value.id == "codecs") else 1
            if len(c.args) > pos:
                err = c.args[pos]
        elif isinstance(f, ast.Name) and f.id == "str" and len(c.args) >= 2:
            conv = True
            if len(c.args) > 2:
                err = c.args[2]
        elif isinstance(f, ast.Name) and f.id == "str" and any(k.arg in ("encoding", "errors") for k in c.keywords):
            conv = True
        for k in c.keywords:
            if k.arg == "errors":
                err, conv = k.value, True
            elif k.arg is None:
                err, conv = k.value, True   # **kwargs: not a literal
        if conv:
            seen += 1
            if err is not None and not (isinstance(err, ast.Constant) and err.value == "strict"):
                lenient += 1
    return seen, lenient


def _reply_decoding_strict(src):
    """The bytes of a 200 reply become text by STRICT decoding only: JSONTarget.close hands them to utils.from_bytes
    and/or decodes them itself, and no conversion in either names an error handler (`errors="replace"`/"ignore"/…).
    None when JSONTarget.close is not found or converts nothing at all."""
    close = src.func("jsonrpc", "JSONTarget.close")
    if close is None:
        return None
    seen, lenient = _lenient_decodes(close)
    uses_fb = any(isinstance(c, ast.Call) and ((isinstance(c.func, ast.Attribute) and c.func.attr == "from_bytes")
                                               or (isinstance(c.func, ast.Name) and c.func.id == "from_bytes"))
                  for c in ast.walk(close))
    if uses_fb:
        defs = _all_defs(src.module("utils"), "from_bytes")
        if not defs:
            return None
        for d in defs:
            s2, l2 = _lenient_decodes(d)
            seen += s2
            lenient += l2
    if seen == 0:
        return None
    return lenient == 0


def _success_returns_parsed(fn):
    """The success branch of single_request (the `if` on the status inside the exchange `try`) hands back what
    parse_response returned and nothing else: every `return` in it returns the call `…parse_response(<response>)` or a
    name whose single assignment is that call, there is at least one, and the branch holds no `raise` — no test on the
    parsed text (its length, its first character, …) can turn a healthy reply into an error or another value."""
    al = _aliases(fn)
    t = _exchange_try(fn)
    if t is None:
        return None

    def is_parse(x):
        x = _resolve(x, al)
        return isinstance(x, ast.Call) and isinstance(x.func, ast.Attribute) and x.func.attr == "parse_response"

    branches = [n for n in ast.walk(t) if isinstance(n, ast.If) and any(
        isinstance(m, ast.Attribute) and m.attr == "parse_response" for b in n.body for m in ast.walk(b))]
    if not branches:
        return None
    ok = True
    for n in branches[:1]:
        rets = [m for b in n.body for m in ast.walk(b) if isinstance(m, ast.Return)]
        raises = [m for b in n.body for m in ast.walk(b) if isinstance(m, ast.Raise)]
        if not rets or raises or not all(r.value is not None and is_parse(r.value) for r in rets):
            ok = False
    return ok


def _raises_transport_error(fn):
    """After the exchange, the function ends by raising TransportError(host + handler, <response>.status, …)."""
    al = _aliases(fn)
    last = fn.body[-1] if fn.body else None
    if not (isinstance(last, ast.Raise) and isinstance(last.exc, ast.Call)):
        return False
    call = last.exc
    if not (isinstance(call.func, ast.Name) and call.func.id == "TransportError" and len(call.args) >= 2):
        return False
    url, status = _resolve(call.args[0], al), _resolve(call.args[1], al)
    url_ok = (isinstance(url, ast.BinOp) and isinstance(url.op, ast.Add)
              and isinstance(url.left, ast.Name) and url.left.id == "host"
              and isinstance(url.right, ast.Name) and url.right.id == "handler")
    status_ok = isinstance(status, ast.Attribute) and status.attr == "status"
    return bool(url_ok and status_ok)


def _empty_body_none(fn):
    """_run_request: on every path on which the transport's reply tests falsy the function returns None and parses
    nothing — and there is such a path.  Path-sensitive: `if not r: return None else: …`, `if r: return loads(r)` ;
    `return None`, guard or nested, say the same."""
    resp = set()
    for n in ast.walk(fn):
        if isinstance(n, ast.Assign) and isinstance(n.value, ast.Call) and isinstance(n.value.func, ast.Attribute) \
                and n.value.func.attr == "request":
            resp.update(t.id for t in n.targets if isinstance(t, ast.Name))
    if not resp:
        return False
    falsy = []
    for p in norm.paths(fn.body):
        at = None
        for k, step in enumerate(p.steps):
            if step[0] != "test":
                continue
            t, val = step[1], step[2]
            while isinstance(t, ast.UnaryOp) and isinstance(t.op, ast.Not):
                t, val = t.operand, not val
            if isinstance(t, ast.Name) and t.id in resp and val is False and at is None:
                at = k
        if at is not None:
            falsy.append((p, at))
    if not falsy:
        return False
    for p, at in falsy:
        if p.end != "return":
            return False
        rets = [st[1] for st in p.steps if st[0] == "stmt" and isinstance(st[1], ast.Return)]
        last = rets[-1] if rets else None
        if not (isinstance(last, ast.Return) and (last.value is None or (isinstance(last.value, ast.Constant) and last.value.value is None))):
            return False
        for step in p.steps[at + 1:]:
            if any(isinstance(m, ast.Call) and isinstance(m.func, ast.Name) and m.func.id == "loads" for m in ast.walk(step[1])):
                return False
    return True


def facts(src):
    src = norm.nsource(src)
    sr = src.func("jsonrpc", "TransportMixIn.single_request")
    rr = src.func("jsonrpc", "ServerProxy._run_request")
    a = _closes_on_error(sr) if sr is not None else None
    b = _drains_when_length(sr) if sr is not None else None
    c = _empty_body_none(rr) if rr is not None else None
    d = _success_statuses(sr) if sr is not None else None
    e = _closes_when_no_length(sr) if sr is not None else None
    f = _raises_transport_error(sr) if sr is not None else None
    g = _closes_response_unread(sr) if sr is not None else None
    h = _error_body_unused(sr) if sr is not None else None
    i = _reply_decoding_strict(src)
    j = _success_returns_parsed(sr) if sr is not None else None
    return [
        Fact("replyDecodingStrict", "Bool", None if i is None else lean_bool(i), ["C19"],
             "the bytes of a 200 reply become text by strict decoding only (JSONTarget.close / utils.from_bytes name no error "
             "handler such as errors=\"replace\"): a body that is not valid UTF-8 raises instead of yielding a made-up value",
             json_value=i),
        Fact("singleRequestSuccessReturnsParsed", "Bool", None if j is None else lean_bool(j), ["C19"],
             "the 200 branch of single_request returns what parse_response returned, unconditionally: no raise and no other "
             "return in it (no test on the parsed text can refuse or replace a healthy reply)", json_value=j),
        Fact("singleRequestClosesOnError", "Bool", None if a is None else lean_bool(a), ["C19"],
             "single_request closes the cached connection and re-raises on any exception of the exchange (send, getresponse, parse)",
             json_value=a),
        Fact("singleRequestSuccessStatuses", "List Nat", None if d is None else lean_list([str(x) for x in d]), ["C19"],
             "the statuses for which single_request parses and returns the reply (the test `response.status == 200`)", json_value=d),
        Fact("singleRequestRaisesTransportError", "Bool", None if f is None else lean_bool(f), ["C19"],
             "every other status ends in `raise TransportError(host + handler, response.status, ...)`", json_value=f),
        Fact("singleRequestDrainsWhenLength", "Bool", None if b is None else lean_bool(b), ["C19"],
             "single_request drains the body of a non-200 reply when a Content-Length is announced (a switch of the model: Lib.drain)",
             json_value=b),
        Fact("singleRequestClosesWhenNoLength", "Bool", None if e is None else lean_bool(e), ["C19"],
             "single_request closes the connection of a non-200 reply that announces no Content-Length (a switch of the model: Lib.closeNoLen)",
             json_value=e),
        Fact("singleRequestClosesResponseUnread", "Bool", None if g is None else lean_bool(g), ["C19"],
             "the non-200 path of single_request closes the response object without having read it (the connection then looks "
             "idle to http.client while bytes of that exchange may still arrive on it)", json_value=g),
        Fact("singleRequestErrorBodyUnused", "Bool", None if h is None else lean_bool(h), ["C19"],
             "single_request drops the bytes it reads from a reply body (the drain of a non-200 reply): they reach no call, no "
             "return value, no exception - whatever an error body holds cannot influence the outcome", json_value=h),
        Fact("runRequestEmptyBodyNone", "Bool", None if c is None else lean_bool(c), ["C19"],
             "_run_request returns None for an empty body", json_value=c),
    ]
