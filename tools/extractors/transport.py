"""
Facts about TransportMixIn.single_request / ServerProxy._run_request (C19).
"""
import ast

from __main__ import Fact, lean_bool

PROPERTIES = ["C19"]


def _closes_on_error(fn):
    """single_request: a bare/`Exception` handler around the exchange that calls self.close() and re-raises."""
    for n in ast.walk(fn):
        if isinstance(n, ast.Try):
            for h in n.handlers:
                if h.type is None or (isinstance(h.type, ast.Name) and h.type.id in ("Exception", "BaseException")):
                    closes = any(isinstance(m, ast.Call) and isinstance(m.func, ast.Attribute) and m.func.attr == "close"
                                 and isinstance(m.func.value, ast.Name) and m.func.value.id == "self" for s in h.body for m in ast.walk(s))
                    reraises = any(isinstance(s, ast.Raise) and s.exc is None for s in h.body)
                    covers = any(isinstance(m, ast.Attribute) and m.attr == "getresponse" for s in n.body for m in ast.walk(s))
                    if covers:
                        return closes and reraises
            return False
    return None


def _drains_when_length(fn):
    """`if response.getheader("content-length", …): response.read()` before raising TransportError."""
    for n in ast.walk(fn):
        if isinstance(n, ast.If):
            test_ok = any(isinstance(m, ast.Constant) and isinstance(m.value, str) and m.value.lower() == "content-length"
                          for m in ast.walk(n.test))
            reads = any(isinstance(m, ast.Call) and isinstance(m.func, ast.Attribute) and m.func.attr == "read"
                        for s in n.body for m in ast.walk(s))
            if test_ok:
                return reads
    raises_te = any(isinstance(m, ast.Name) and m.id == "TransportError" for m in ast.walk(fn))
    return False if raises_te else None


def _empty_body_none(fn):
    """_run_request: `if not response: return None`."""
    for n in ast.walk(fn):
        if isinstance(n, ast.If) and isinstance(n.test, ast.UnaryOp) and isinstance(n.test.op, ast.Not):
            rets = [s for s in n.body if isinstance(s, ast.Return)]
            if rets and (rets[0].value is None or (isinstance(rets[0].value, ast.Constant) and rets[0].value.value is None)):
                return True
    return False


def facts(src):
    sr = src.func("jsonrpc", "TransportMixIn.single_request")
    rr = src.func("jsonrpc", "ServerProxy._run_request")
    a = _closes_on_error(sr) if sr is not None else None
    b = _drains_when_length(sr) if sr is not None else None
    c = _empty_body_none(rr) if rr is not None else None
    return [
        Fact("singleRequestClosesOnError", "Bool", None if a is None else lean_bool(a), ["C19"],
             "single_request closes the cached connection and re-raises on any exception of the exchange", json_value=a),
        Fact("singleRequestDrainsWhenLength", "Bool", None if b is None else lean_bool(b), ["C19"],
             "single_request drains the body of a non-200 reply when a Content-Length is announced", json_value=b),
        Fact("runRequestEmptyBodyNone", "Bool", None if c is None else lean_bool(c), ["C19"],
             "_run_request returns None for an empty body", json_value=c),
    ]
