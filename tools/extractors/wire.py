"""
Facts about wire framing in jsonrpclib/jsonrpc.py and SimpleJSONRPCServer.py (C17).
"""
import ast

from __main__ import Fact, const_num, lean_bool, lean_list, lean_str

PROPERTIES = ["C17"]


def _calls(node, attr):
    return [n for n in ast.walk(node) if isinstance(n, ast.Call)
            and ((isinstance(n.func, ast.Attribute) and n.func.attr == attr) or (isinstance(n.func, ast.Name) and n.func.id == attr))]


def _len_after_conversion(fn, conv_names):
    """
    True when every `len(x)` whose value is emitted is applied to a name that was last assigned from a
    call to one of conv_names (to_bytes / encode) earlier in the function; False when some len() is applied to
    something else; None when no len() call exists.
    """
    converted = set()
    verdicts = []
    for stmt in ast.walk(fn):
        pass
    for stmt in fn.body if hasattr(fn, "body") else []:
        for n in ast.walk(stmt):
            if isinstance(n, ast.Assign) and len(n.targets) == 1 and isinstance(n.targets[0], ast.Name):
                is_conv = isinstance(n.value, ast.Call) and (
                    (isinstance(n.value.func, ast.Attribute) and n.value.func.attr in conv_names)
                    or (isinstance(n.value.func, ast.Name) and n.value.func.id in conv_names))
                if is_conv:
                    converted.add(n.targets[0].id)
                else:
                    converted.discard(n.targets[0].id)
            if isinstance(n, ast.Call) and isinstance(n.func, ast.Name) and n.func.id == "len" and n.args:
                a = n.args[0]
                # only the len() that feeds a header / print
                verdicts.append(isinstance(a, ast.Name) and a.id in converted)
    return None if not verdicts else all(verdicts)


def _header_len_sites(fn, conv_names):
    """Restrict to len() calls that appear inside a putheader/send_header/print call."""
    converted = set()
    verdicts = []

    def visit(stmts):
        for stmt in stmts:
            if isinstance(stmt, ast.Assign) and len(stmt.targets) == 1 and isinstance(stmt.targets[0], ast.Name):
                v = stmt.value
                is_conv = isinstance(v, ast.Call) and (
                    (isinstance(v.func, ast.Attribute) and v.func.attr in conv_names)
                    or (isinstance(v.func, ast.Name) and v.func.id in conv_names))
                if is_conv:
                    converted.add(stmt.targets[0].id)
                else:
                    converted.discard(stmt.targets[0].id)
            for n in ast.walk(stmt) if not isinstance(stmt, (ast.If, ast.Try, ast.While, ast.For, ast.With)) else []:
                if isinstance(n, ast.Call) and (
                        (isinstance(n.func, ast.Attribute) and n.func.attr in ("putheader", "send_header"))
                        or (isinstance(n.func, ast.Name) and n.func.id == "print")):
                    for m in ast.walk(n):
                        if isinstance(m, ast.Call) and isinstance(m.func, ast.Name) and m.func.id == "len" and m.args:
                            a = m.args[0]
                            verdicts.append(isinstance(a, ast.Name) and a.id in converted)
            for field in ("body", "orelse", "finalbody", "handlers"):
                sub = getattr(stmt, field, None)
                if isinstance(sub, list):
                    visit([s for s in sub if isinstance(s, ast.stmt)] + [h for h in sub if isinstance(h, ast.ExceptHandler)])

    visit(fn.body)
    return None if not verdicts else all(verdicts)


def _server_decodes_after_join(fn):
    """do_POST: from_bytes is applied outside the read loop to a join(...) of the chunks."""
    in_loop = False
    for n in ast.walk(fn):
        if isinstance(n, ast.While):
            if _calls(n, "from_bytes"):
                in_loop = True
    joins = [c for c in _calls(fn, "from_bytes") if c.args and isinstance(c.args[0], ast.Call)
             and isinstance(c.args[0].func, ast.Attribute) and c.args[0].func.attr == "join"]
    if not _calls(fn, "from_bytes"):
        return None
    return bool(joins) and not in_loop


def _client_decodes_after_join(src):
    feed = src.func("jsonrpc", "JSONTarget.feed")
    close = src.func("jsonrpc", "JSONTarget.close")
    if feed is None or close is None:
        return None
    if _calls(feed, "from_bytes"):
        return False
    return bool(_calls(close, "from_bytes")) and bool(_calls(close, "join"))


def _max_chunk(fn):
    for n in ast.walk(fn):
        if isinstance(n, ast.Assign) and any(isinstance(t, ast.Name) and t.id == "max_chunk_size" for t in n.targets):
            try:
                return int(eval(compile(ast.Expression(n.value), "<x>", "eval"), {"__builtins__": {}}))
            except Exception:
                return None
    return None


def _content_type_from_config(fn, call_names):
    """The Content-Type value emitted is an attribute access `.content_type` (not a literal)."""
    res = []
    for n in ast.walk(fn):
        if isinstance(n, ast.Call) and (
                (isinstance(n.func, ast.Attribute) and n.func.attr in call_names)
                or (isinstance(n.func, ast.Name) and n.func.id in call_names)):
            consts = [a.value.lower() for a in n.args if isinstance(a, ast.Constant) and isinstance(a.value, str)]
            if any(c.startswith("content-type") for c in consts):
                res.append(any(isinstance(a, ast.Attribute) and a.attr == "content_type" for a in n.args))
    return None if not res else all(res)


def _schemes(fn):
    """`schema not in ("http", "https")` and the "unix+" prefix of ServerProxy.__init__."""
    allowed = prefix = None
    for n in ast.walk(fn):
        if isinstance(n, ast.Compare) and isinstance(n.ops[0], ast.NotIn) and isinstance(n.comparators[0], (ast.Tuple, ast.List)):
            vals = [e.value for e in n.comparators[0].elts if isinstance(e, ast.Constant)]
            if vals and all(isinstance(v, str) for v in vals):
                allowed = vals
        if isinstance(n, ast.Call) and isinstance(n.func, ast.Attribute) and n.func.attr == "startswith" and n.args \
                and isinstance(n.args[0], ast.Constant) and isinstance(n.args[0].value, str):
            prefix = n.args[0].value
    if allowed is None or prefix is None:
        return None
    return allowed, prefix


def facts(src):
    sc = src.func("jsonrpc", "TransportMixIn.send_content")
    post = src.func("SimpleJSONRPCServer", "SimpleJSONRPCRequestHandler.do_POST")
    cgi = src.func("SimpleJSONRPCServer", "CGIJSONRPCRequestHandler.handle_jsonrpc")
    init = src.func("jsonrpc", "ServerProxy.__init__")
    la = None
    if sc is not None and post is not None and cgi is not None:
        a = _header_len_sites(sc, ("to_bytes",))
        b = _header_len_sites(post, ("to_bytes",))
        c = _header_len_sites(cgi, ("encode", "to_bytes"))
        if None not in (a, b, c):
            la = (a, b, c)
    sd = _server_decodes_after_join(post) if post is not None else None
    cd = _client_decodes_after_join(src)
    mc = _max_chunk(post) if post is not None else None
    ctc = None
    if sc is not None and post is not None and cgi is not None:
        t = (_content_type_from_config(sc, ("putheader",)), _content_type_from_config(post, ("send_header",)),
             _content_type_from_config(cgi, ("print",)))
        if None not in t:
            ctc = t
    sch = _schemes(init) if init is not None else None
    b3 = lambda t: "(%s, %s, %s)" % tuple(lean_bool(x) for x in t)
    return [
        Fact("lenAfterToBytes", "Bool × Bool × Bool", None if la is None else b3(la), ["C17"],
             "the Content-Length value is len() of the converted bytes in (client send_content, server do_POST, CGI handler)", json_value=la),
        Fact("serverDecodesAfterJoin", "Bool", None if sd is None else lean_bool(sd), ["C17"],
             "do_POST decodes the joined raw chunks once, outside the read loop", json_value=sd),
        Fact("clientDecodesAfterJoin", "Bool", None if cd is None else lean_bool(cd), ["C17"],
             "JSONTarget buffers raw chunks and decodes once in close()", json_value=cd),
        Fact("maxChunkSize", "Nat", None if mc is None else str(mc), ["C17"], "do_POST max_chunk_size", json_value=mc),
        Fact("contentTypeFromConfig", "Bool × Bool × Bool", None if ctc is None else b3(ctc), ["C17"],
             "Content-Type is read from the configuration in (client, server, CGI)", json_value=ctc),
        Fact("acceptedSchemes", "List String × String",
             None if sch is None else "(%s, %s)" % (lean_list([lean_str(x) for x in sch[0]]), lean_str(sch[1])), ["C17"],
             "ServerProxy.__init__: accepted schemes after stripping the unix prefix", json_value=sch),
    ]
