"""
Facts about wire framing in jsonrpclib/jsonrpc.py and SimpleJSONRPCServer.py (C17).
"""
import ast

from __main__ import Fact, const_num, lean_bool, lean_list, lean_str

import importlib.util
import os
import sys


def _load_norm():
    """tools/extractors/normalise_rpc.py, loaded once per process under a name of its own (sys.path is left alone)."""
    name = "jrv_normalise_rpc"
    if name not in sys.modules:
        spec = importlib.util.spec_from_file_location(
            name, os.path.join(os.path.dirname(os.path.abspath(__file__)), "normalise_rpc.py"))
        mod = importlib.util.module_from_spec(spec)
        sys.modules[name] = mod
        spec.loader.exec_module(mod)
    return sys.modules[name]


norm = _load_norm()


PROPERTIES = ["C17"]


def _calls(node, attr):
    return [n for n in ast.walk(node) if isinstance(n, ast.Call)
            and ((isinstance(n.func, ast.Attribute) and n.func.attr == attr) or (isinstance(n.func, ast.Name) and n.func.id == attr))]


def _is_call_to(node, names):
    return isinstance(node, ast.Call) and (
        (isinstance(node.func, ast.Attribute) and node.func.attr in names)
        or (isinstance(node.func, ast.Name) and node.func.id in names))


def _stmts_in_order(stmts):
    """Statements of a function body in source order, compound statements flattened (their header first)."""
    for stmt in stmts:
        yield stmt
        for field in ("body", "orelse", "finalbody"):
            sub = getattr(stmt, field, None)
            if isinstance(sub, list):
                for x in _stmts_in_order([s for s in sub if isinstance(s, ast.stmt)]):
                    yield x
        for h in getattr(stmt, "handlers", None) or []:
            for x in _stmts_in_order(h.body):
                yield x


def _header_len_sites(fn, conv_names):
    """
    The value of every Content-Length line emitted by fn (putheader / send_header / print whose constant
    argument starts with "content-length") is the len() of a name last assigned from a conversion call
    (to_bytes / encode), possibly through one-step aliases:  b = to_bytes(x); n = len(b); putheader(.., str(n)).
    True / False; None when fn emits no Content-Length line.
    """
    tag = {}  # name -> "conv" | "len-conv" | "len-other"
    verdicts = []

    def len_arg(v):
        """Name inside len(<Name>) / str(len(<Name>)), or None."""
        if _is_call_to(v, ("str",)) and len(v.args) == 1:
            v = v.args[0]
        if isinstance(v, ast.Call) and isinstance(v.func, ast.Name) and v.func.id == "len" and len(v.args) == 1:
            return v.args[0]
        return None

    for stmt in _stmts_in_order(fn.body):
        if isinstance(stmt, ast.Assign) and len(stmt.targets) == 1 and isinstance(stmt.targets[0], ast.Name):
            name, v = stmt.targets[0].id, stmt.value
            la = len_arg(v)
            if _is_call_to(v, conv_names):
                tag[name] = "conv"
            elif isinstance(v, ast.Name) and v.id in tag:
                tag[name] = tag[v.id]
            elif la is not None:
                tag[name] = "len-conv" if isinstance(la, ast.Name) and tag.get(la.id) == "conv" else "len-other"
            else:
                tag.pop(name, None)
            continue
        if isinstance(stmt, (ast.If, ast.Try, ast.While, ast.For, ast.With)):
            # only the header expressions of compound statements are looked at here; their bodies come next
            heads = [getattr(stmt, "test", None), getattr(stmt, "iter", None)]
            nodes = [h for h in heads if h is not None]
        else:
            nodes = [stmt]
        for top in nodes:
            for n in ast.walk(top):
                if not _is_call_to(n, ("putheader", "send_header", "print")):
                    continue
                consts = [a.value.lower() for a in n.args if isinstance(a, ast.Constant) and isinstance(a.value, str)]
                if not any(c.startswith("content-length") for c in consts):
                    continue
                site = []
                for m in ast.walk(n):
                    if isinstance(m, ast.Call) and isinstance(m.func, ast.Name) and m.func.id == "len" and m.args:
                        a = m.args[0]
                        site.append(isinstance(a, ast.Name) and tag.get(a.id) == "conv")
                    elif isinstance(m, ast.Name) and tag.get(m.id) in ("len-conv", "len-other"):
                        site.append(tag[m.id] == "len-conv")
                verdicts.append(bool(site) and all(site))
    return None if not verdicts else all(verdicts)


def _assignments(fn):
    """name -> list of values assigned to it anywhere in fn (single Name targets only)."""
    out = {}
    for n in ast.walk(fn):
        if isinstance(n, ast.Assign) and len(n.targets) == 1 and isinstance(n.targets[0], ast.Name):
            out.setdefault(n.targets[0].id, []).append(n.value)
    return out


def _is_join(node):
    return isinstance(node, ast.Call) and isinstance(node.func, ast.Attribute) and node.func.attr == "join"


def _resolves_to_join(node, assigns, depth=2):
    """node is `x.join(...)`, or a name every (non-decoding) assignment of which is one, through at most two aliases."""
    if _is_join(node):
        return node
    if isinstance(node, ast.Name) and depth > 0:
        vals = [v for v in assigns.get(node.id, []) if not _is_call_to(v, ("from_bytes", "decode_request_content"))]
        if not vals:
            return None
        res = [_resolves_to_join(v, assigns, depth - 1) for v in vals]
        if all(r is not None for r in res):
            return res[0]
    return None


def _server_decodes_after_join(fn):
    """
    do_POST: from_bytes is applied outside the read loop to the join of the list the loop appends to, possibly
    through a one-step local alias (`raw = b"".join(chunks); data = from_bytes(raw)`).  Decoding inside the loop,
    or decoding anything that is not the joined list, gives False.
    """
    decodes = _calls(fn, "from_bytes")
    if not decodes:
        return None
    loops = [n for n in ast.walk(fn) if isinstance(n, (ast.While, ast.For))]
    in_loop = set()
    appended = set()
    for lp in loops:
        for c in _calls(lp, "from_bytes"):
            in_loop.add(id(c))
        for c in _calls(lp, "append"):
            if isinstance(c.func, ast.Attribute) and isinstance(c.func.value, ast.Name):
                appended.add(c.func.value.id)
    if in_loop:
        return False
    assigns = _assignments(fn)
    for c in decodes:
        j = _resolves_to_join(c.args[0], assigns) if c.args else None
        if j is None or not j.args:
            return False
        src = j.args[0]
        if isinstance(src, ast.Name) and src.id in assigns and src.id not in appended:
            # one-step alias of the list itself
            vals = assigns[src.id]
            src = vals[0] if len(vals) == 1 else src
        if not (isinstance(src, ast.Name) and src.id in appended):
            return False
    return True


def _client_decodes_after_join(src):
    """JSONTarget: feed() stores the raw chunk (no decoding there); close() decodes the join of the stored chunks
    once, possibly through a one-step local alias."""
    feed = src.func("jsonrpc", "JSONTarget.feed")
    close = src.func("jsonrpc", "JSONTarget.close")
    if feed is None or close is None:
        return None
    if _calls(feed, "from_bytes") or _calls(feed, "decode"):
        return False
    decodes = _calls(close, "from_bytes")
    if not decodes:
        return None
    if any(_calls(lp, "from_bytes") for lp in ast.walk(close) if isinstance(lp, (ast.While, ast.For))):
        return False
    assigns = _assignments(close)
    return all(c.args and _resolves_to_join(c.args[0], assigns) is not None for c in decodes)


def _handler_from_url(fn):
    """
    ServerProxy.__init__: (every assignment to the handler attribute is the parsed URL's path or the constant "/",
    at least one is the path; every assignment to the query-string attribute is the parsed URL's query) - with no
    call or other expression applied; a one-step local alias is tolerated.
    """
    assigns = _assignments(fn)
    parsed = {}   # expression kind by local name: "su" (the parse result), "path", "query"
    for n in ast.walk(fn):
        if isinstance(n, ast.Assign) and len(n.targets) == 1 and _is_call_to(n.value, ("urlparse", "urlsplit")):
            t = n.targets[0]
            fname = n.value.func.attr if isinstance(n.value.func, ast.Attribute) else n.value.func.id
            if isinstance(t, ast.Name):
                parsed[t.id] = "su"
            elif isinstance(t, (ast.Tuple, ast.List)):
                idx = {"urlparse": (2, 4), "urlsplit": (2, 3)}[fname]
                for i, e in enumerate(t.elts):
                    if isinstance(e, ast.Name) and i == idx[0]:
                        parsed[e.id] = "path"
                    if isinstance(e, ast.Name) and i == idx[1]:
                        parsed[e.id] = "query"
    if not parsed:
        return None

    def kind(v, depth=1):
        if isinstance(v, ast.Attribute) and isinstance(v.value, ast.Name) and parsed.get(v.value.id) == "su" \
                and v.attr in ("path", "query"):
            return v.attr
        if isinstance(v, ast.Name) and parsed.get(v.id) in ("path", "query"):
            return parsed[v.id]
        if isinstance(v, ast.Constant) and isinstance(v.value, str):
            return "const:" + v.value
        if isinstance(v, ast.Name) and depth > 0 and len(assigns.get(v.id, [])) == 1:
            return kind(assigns[v.id][0], depth - 1)
        return "other"

    hk, qk = [], []
    for n in ast.walk(fn):
        if isinstance(n, ast.Assign):
            for t in n.targets:
                if isinstance(t, ast.Attribute) and isinstance(t.value, ast.Name) and t.value.id == "self":
                    if t.attr.endswith("handler"):
                        hk.append(kind(n.value))
                    elif t.attr.endswith("query_string") or t.attr.endswith("query"):
                        qk.append(kind(n.value))
    if not hk or not qk:
        return None
    return ("path" in hk and all(k in ("path", "const:/") for k in hk), all(k == "query" for k in qk))


def _forwards_param(fn, callee, arg_index, keyword=None):
    """Every call `….<callee>(…)` in fn passes fn's third parameter (self, x, <handler>, …) unchanged as positional
    argument <arg_index> (or as keyword), the parameter never being reassigned; a one-step alias is tolerated."""
    params = [a.arg for a in fn.args.args]
    if len(params) < 3:
        return None
    h = params[2]
    for n in ast.walk(fn):
        targets = []
        if isinstance(n, ast.Assign):
            targets = n.targets
        elif isinstance(n, (ast.AugAssign, ast.AnnAssign)):
            targets = [n.target]
        for t in targets:
            for m in ast.walk(t):
                if isinstance(m, ast.Name) and m.id == h:
                    return False
    assigns = _assignments(fn)
    calls = _calls(fn, callee)
    if not calls:
        return None

    def is_h(v, depth=1):
        if isinstance(v, ast.Name) and v.id == h:
            return True
        if isinstance(v, ast.Name) and depth > 0 and len(assigns.get(v.id, [])) == 1:
            return is_h(assigns[v.id][0], depth - 1)
        return False

    for c in calls:
        v = c.args[arg_index] if len(c.args) > arg_index else None
        if v is None and keyword:
            v = next((k.value for k in c.keywords if k.arg == keyword), None)
        if v is None or not is_h(v):
            return False
    return True


def _max_chunk(fn):
    for n in ast.walk(fn):
        if isinstance(n, ast.Assign) and any(isinstance(t, ast.Name) and t.id == "max_chunk_size" for t in n.targets):
            try:
                return int(eval(compile(ast.Expression(n.value), "<x>", "eval"), {"__builtins__": {}}))
            except Exception:
                return None
    return None


def _content_type_from_config(fn, call_names):
    """The Content-Type value emitted is an attribute access `.content_type` (not a literal)."""
    res = []
    for n in ast.walk(fn):
        if isinstance(n, ast.Call) and (
                (isinstance(n.func, ast.Attribute) and n.func.attr in call_names)
                or (isinstance(n.func, ast.Name) and n.func.id in call_names)):
            consts = [a.value.lower() for a in n.args if isinstance(a, ast.Constant) and isinstance(a.value, str)]
            if any(c.startswith("content-type") for c in consts):
                res.append(any(isinstance(a, ast.Attribute) and a.attr == "content_type" for a in n.args))
    return None if not res else all(res)


def _schemes(fn):
    """`schema not in ("http", "https")` and the "unix+" prefix of ServerProxy.__init__."""
    allowed = prefix = None
    # canonical form of the refusal test: `s not in (a, b)` and `not (s == a or s == b)` are `s != a and s != b`
    fn = norm.clone(fn)
    norm.membership_tests(fn)
    norm.negation_normal(fn)
    for n in ast.walk(fn):
        if isinstance(n, ast.If) and any(isinstance(s, ast.Raise) for s in n.body):
            parts = n.test.values if isinstance(n.test, ast.BoolOp) and isinstance(n.test.op, ast.And) else [n.test]
            if all(isinstance(p, ast.Compare) and len(p.ops) == 1 and isinstance(p.ops[0], ast.NotEq) and isinstance(p.left, ast.Name)
                   and isinstance(p.comparators[0], ast.Constant) and isinstance(p.comparators[0].value, str) for p in parts) \
                    and len(set(p.left.id for p in parts)) == 1:
                allowed = [p.comparators[0].value for p in parts]
        if isinstance(n, ast.Call) and isinstance(n.func, ast.Attribute) and n.func.attr == "startswith" and n.args \
                and isinstance(n.args[0], ast.Constant) and isinstance(n.args[0].value, str):
            prefix = n.args[0].value
    if allowed is None or prefix is None:
        return None
    return allowed, prefix


def facts(src):
    src = norm.nsource(src)
    sc = src.func("jsonrpc", "TransportMixIn.send_content")
    post = src.func("SimpleJSONRPCServer", "SimpleJSONRPCRequestHandler.do_POST")
    cgi = src.func("SimpleJSONRPCServer", "CGIJSONRPCRequestHandler.handle_jsonrpc")
    init = src.func("jsonrpc", "ServerProxy.__init__")
    la = None
    if sc is not None and post is not None and cgi is not None:
        a = _header_len_sites(sc, ("to_bytes",))
        b = _header_len_sites(post, ("to_bytes",))
        c = _header_len_sites(cgi, ("encode", "to_bytes"))
        if None not in (a, b, c):
            la = (a, b, c)
    sd = _server_decodes_after_join(post) if post is not None else None
    cd = _client_decodes_after_join(src)
    mc = _max_chunk(post) if post is not None else None
    ctc = None
    if sc is not None and post is not None and cgi is not None:
        t = (_content_type_from_config(sc, ("putheader",)), _content_type_from_config(post, ("send_header",)),
             _content_type_from_config(cgi, ("print",)))
        if None not in t:
            ctc = t
    sch = _schemes(init) if init is not None else None
    hfu = _handler_from_url(init) if init is not None else None
    sr = src.func("jsonrpc", "TransportMixIn.single_request")
    sq = src.func("jsonrpc", "TransportMixIn.send_request")
    fwd = None
    if sr is not None and sq is not None:
        t = (_forwards_param(sr, "send_request", 1, "handler"), _forwards_param(sq, "putrequest", 1, "url"))
        if None not in t:
            fwd = t
    b2 = lambda t: "(%s, %s)" % tuple(lean_bool(x) for x in t)
    b3 = lambda t: "(%s, %s, %s)" % tuple(lean_bool(x) for x in t)
    return [
        Fact("lenAfterToBytes", "Bool × Bool × Bool", None if la is None else b3(la), ["C17"],
             "the Content-Length value is len() of the converted bytes in (client send_content, server do_POST, CGI handler)", json_value=la),
        Fact("serverDecodesAfterJoin", "Bool", None if sd is None else lean_bool(sd), ["C17"],
             "do_POST applies from_bytes outside the read loop to the join of the chunks the loop collected "
             "(a one-step local alias is tolerated)", json_value=sd),
        Fact("clientDecodesAfterJoin", "Bool", None if cd is None else lean_bool(cd), ["C17"],
             "JSONTarget buffers raw chunks and decodes once in close()", json_value=cd),
        Fact("maxChunkSize", "Nat", None if mc is None else str(mc), ["C17"], "do_POST max_chunk_size", json_value=mc),
        Fact("contentTypeFromConfig", "Bool × Bool × Bool", None if ctc is None else b3(ctc), ["C17"],
             "Content-Type is read from the configuration in (client, server, CGI)", json_value=ctc),
        Fact("acceptedSchemes", "List String × String",
             None if sch is None else "(%s, %s)" % (lean_list([lean_str(x) for x in sch[0]]), lean_str(sch[1])), ["C17"],
             "ServerProxy.__init__: accepted schemes after stripping the unix prefix", json_value=sch),
        Fact("handlerFromUrl", "Bool × Bool", None if hfu is None else b2(hfu), ["C17"],
             "ServerProxy.__init__ assigns (the handler from the parsed URL's path or the constant \"/\", the query string "
             "from the parsed URL's query) with no call applied", json_value=hfu),
        Fact("targetForwarded", "Bool × Bool", None if fwd is None else b2(fwd), ["C17"],
             "(single_request passes its handler parameter unchanged to send_request, send_request passes it unchanged as "
             "the second argument of every putrequest call)", json_value=fwd),
    ]
