"""
Facts about what a transport keeps from one response to the next (C17, model JRV.Model.WireSession):

  getparserFresh    TransportMixIn.getparser: every call builds a new `JSONTarget()` and returns `(JSONParser(<it>), <it>)` — the
                    target it returns is never one that was stored on the transport / the class by an earlier call.
  targetOwnBuffer   JSONTarget.__init__ binds `self.data` to a new empty list (no class-level `data` shared by the instances, no
                    default argument).

Read on the normalised source (tools/extractors/normalise_rpc.py: new private helpers expanded in place), so that a
behaviour-preserving rewrite — an instance method instead of the static one, the parser bound to a local first, the
construction moved into a helper — gives the same facts.
"""
import ast
import importlib.util
import os
import sys

from __main__ import Fact, lean_bool


def _load_norm():
    name = "jrv_normalise_rpc"
    if name not in sys.modules:
        spec = importlib.util.spec_from_file_location(
            name, os.path.join(os.path.dirname(os.path.abspath(__file__)), "normalise_rpc.py"))
        mod = importlib.util.module_from_spec(spec)
        sys.modules[name] = mod
        spec.loader.exec_module(mod)
    return sys.modules[name]


norm = _load_norm()

PROPERTIES = ["C17"]
MOD = "jsonrpc"


def _method(cls, name):
    if cls is None:
        return None
    for m in cls.body:
        if isinstance(m, ast.FunctionDef) and m.name == name:
            return m
    return None


def _is_ctor(node, cls_name, arg=None):
    """`cls_name()` / `cls_name(arg)` with a plain name as callee."""
    if not (isinstance(node, ast.Call) and isinstance(node.func, ast.Name) and node.func.id == cls_name and not node.keywords):
        return False
    if arg is None:
        return not node.args
    return len(node.args) == 1 and isinstance(node.args[0], ast.Name) and node.args[0].id == arg


def _top_level_bindings(fn):
    """{local name: [value nodes]} of the plain assignments at the top level of the function (executed on every call); None for
    a name that is also bound anywhere else."""
    top = {}
    for st in fn.body:
        if isinstance(st, ast.Assign) and len(st.targets) == 1 and isinstance(st.targets[0], ast.Name):
            top.setdefault(st.targets[0].id, []).append(st.value)
    all_stores = {}
    for n in ast.walk(fn):
        if isinstance(n, ast.Name) and isinstance(n.ctx, ast.Store):
            all_stores[n.id] = all_stores.get(n.id, 0) + 1
    return dict((k, v[0]) for k, v in top.items() if len(v) == 1 and all_stores.get(k) == 1)


def _getparser_fresh(fn):
    rets = [n for n in ast.walk(fn) if isinstance(n, ast.Return)]
    if len(rets) != 1 or rets[0] not in fn.body:
        return False          # a conditional / second return: the returned pair may come from somewhere else
    v = rets[0].value
    if not (isinstance(v, ast.Tuple) and len(v.elts) == 2):
        return False
    binds = _top_level_bindings(fn)
    parser, target = v.elts
    if not isinstance(target, ast.Name) or not _is_ctor(binds.get(target.id), "JSONTarget"):
        return False
    if isinstance(parser, ast.Name):
        parser = binds.get(parser.id)
    return _is_ctor(parser, "JSONParser", target.id)


def _own_buffer(cls):
    init = _method(cls, "__init__")
    if init is None:
        return False
    for st in cls.body:
        # a class-level `data = …` would be shared by every instance that does not rebind it
        if isinstance(st, (ast.Assign, ast.AnnAssign)):
            targets = st.targets if isinstance(st, ast.Assign) else [st.target]
            if any(isinstance(t, ast.Name) and t.id == "data" for t in targets):
                return False
    ok = False
    for st in init.body:
        if isinstance(st, ast.Assign) and len(st.targets) == 1:
            t = st.targets[0]
            if isinstance(t, ast.Attribute) and t.attr == "data" and isinstance(t.value, ast.Name) and t.value.id == "self":
                ok = (isinstance(st.value, ast.List) and not st.value.elts) or _is_ctor(st.value, "list")
    stores = [n for n in ast.walk(init) if isinstance(n, ast.Attribute) and n.attr == "data" and isinstance(n.ctx, ast.Store)]
    return ok and len(stores) == 1


def facts(src):
    src = norm.nsource(src)
    mix = src.klass(MOD, "TransportMixIn")
    gp = _method(mix, "getparser")
    fresh = _getparser_fresh(norm.clone(gp)) if gp is not None else None
    tgt = src.klass(MOD, "JSONTarget")
    own = _own_buffer(tgt) if tgt is not None else None
    return [
        Fact("getparserFresh", "Bool", None if fresh is None else lean_bool(fresh), ["C17"],
             "TransportMixIn.getparser builds a new JSONTarget() on every call and returns (JSONParser(it), it): no parser or "
             "target is kept on the transport between responses", json_value=fresh),
        Fact("targetOwnBuffer", "Bool", None if own is None else lean_bool(own), ["C17"],
             "JSONTarget.__init__ binds self.data to a new empty list (no class-level buffer shared by the instances)",
             json_value=own),
    ]
