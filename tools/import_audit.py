#!/usr/bin/env python3
"""Imports the edits produced by the read-only audits (/tmp/audit_*/missed/*.diff) as seeded/audit-<id>/ entries.
usage: import_audit.py <dir>...    (one-off helper; the seeded entries it creates are what is kept)"""
import json, os, shutil, subprocess, sys
ROOT = os.path.dirname(os.path.dirname(os.path.abspath(__file__)))
QUIET = {"C01-4"}  # judged not to violate the property (DESIGN 10.3)
for d in sys.argv[1:]:
    for f in sorted(os.listdir(d)):
        if not f.endswith(".diff"):
            continue
        base = f[:-5]
        harmless = "falsealarm" in base or base in QUIET
        name = "audit-" + base.replace("-falsealarm", "")
        pid = base[:3]
        rc = subprocess.run(["git", "-C", "/repo", "apply", "--check", os.path.join(d, f)], capture_output=True)
        if rc.returncode != 0:
            print("does not apply to HEAD, skipped:", f); continue
        out = os.path.join(ROOT, "seeded", name)
        os.makedirs(out, exist_ok=True)
        shutil.copy(os.path.join(d, f), os.path.join(out, "patch.diff"))
        txt = os.path.join(d, base + ".txt")
        if os.path.exists(txt):
            shutil.copy(txt, os.path.join(out, "demonstration.txt"))
        json.dump({"id": name, "property": pid, "properties": [pid], "origin": "independent audit of the checks",
                   "expect": "quiet" if harmless else "violation",
                   "note": "harmless rewrite or edit judged not to violate the property: the check must stay quiet" if harmless
                           else "edit that breaks the property and passes the unit tests; slipped through the check when the audit ran"},
                  open(os.path.join(out, "meta.json"), "w"), indent=1)
        print("imported", name, "expect", "quiet" if harmless else "violation")
