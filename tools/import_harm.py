#!/usr/bin/env python3
"""
Imports behaviour-preserving edits delivered by independent sub-agents under /tmp/harm_<file>/out/<n>/ (patch.diff, meta.json)
as seeded/harmless-<file>-<n>/ with "expect": "quiet".  Confirmation in a scratch worktree: the patch applies and the pinned
test suite gives the baseline result.  The checks run against such an entry are those of every property anchored in a file
the patch touches (properties.jsonl, anchors.files).
usage: import_harm.py <file-tag> ...
"""
import json, os, re, shutil, subprocess, sys, tempfile
ROOT = os.path.dirname(os.path.dirname(os.path.abspath(__file__)))


def sh(cmd, cwd=None, env=None, timeout=1800):
    e = dict(os.environ); e["PYTHONDONTWRITEBYTECODE"] = "1"; e.update(env or {})
    p = subprocess.run(cmd, cwd=cwd, env=e, stdout=subprocess.PIPE, stderr=subprocess.STDOUT, text=True, timeout=timeout)
    return p.returncode, p.stdout


def anchored():
    m = {}
    for line in open(os.path.join(ROOT, "properties.jsonl")):
        j = json.loads(line)
        for f in j["anchors"]["files"]:
            m.setdefault(f, []).append(j["id"])
    return m


def main(tags):
    anc = anchored()
    for tag in tags:
        base = "/tmp/harm%s_%s/out" % (os.environ.get("HARM_ROUND", ""), tag)
        for n in sorted(os.listdir(base)):
            src = os.path.join(base, n)
            if not os.path.isfile(os.path.join(src, "patch.diff")):
                continue
            tmp = tempfile.mkdtemp(prefix="jrv-harm-"); wt = os.path.join(tmp, "repo")
            try:
                sh(["git", "-C", "/repo", "worktree", "add", "--detach", wt, "HEAD"])
                rc, out = sh(["git", "-C", wt, "apply", os.path.join(src, "patch.diff")])
                if rc:
                    print(tag, n, "REJECTED: does not apply"); continue
                rc, files = sh(["git", "-C", wt, "diff", "--name-only"])
                rct, outt = sh(["/venv/bin/python", "-m", "pytest", "-q", "-p", "no:cacheprovider", "--timeout=900"], cwd=wt, env={"PYTHONPATH": wt})
                tail = outt.strip().splitlines()[-1] if outt.strip() else ""
                failed = re.findall(r"^FAILED (\S+)", outt, re.M)
                m = re.search(r"(\d+) passed", tail)
                if not (m and int(m.group(1)) == 62 and failed == ["tests/test_cgi.py::CGIHandlerTests::test_server"]):
                    print(tag, n, "REJECTED: tests", tail); continue
                props = sorted({p for f in files.split() for p in anc.get(f, [])})
                dst = os.path.join(ROOT, "seeded", "harmless%s-%s-%s" % (os.environ.get("HARM_ROUND", ""), tag, n))
                os.makedirs(dst, exist_ok=True)
                shutil.copy(os.path.join(src, "patch.diff"), dst)
                meta = {}
                try:
                    meta = json.load(open(os.path.join(src, "meta.json")))
                except Exception:
                    pass
                meta.update({"properties": props, "expect": "quiet",
                             "origin": "independent sub-agent asked for behaviour-preserving refactorings (nothing from /verif)",
                             "note": "behaviour-preserving rewrite: " + str(meta.get("summary", "")),
                             "confirmed": "patch applies to HEAD; pinned suite: " + tail})
                json.dump(meta, open(os.path.join(dst, "meta.json"), "w"), indent=1)
                print(tag, n, "imported", props)
            finally:
                sh(["git", "-C", "/repo", "worktree", "remove", "--force", wt]); shutil.rmtree(tmp, ignore_errors=True)


if __name__ == "__main__":
    main(sys.argv[1:])
