#!/usr/bin/env python3
"""
Confirms and imports seeded changes delivered by an independent sub-agent under /tmp/mut_<pid>/out/<x>/
(patch.diff, demo.py, meta.json) into /verif/seeded/mut-<pid>-<x>/.

Confirmation, in a scratch worktree of /repo (never /repo itself):
  demo.py exits 0 on the clean checkout; the patch applies; the pinned test suite gives the baseline result
  (62 passed, only tests/test_cgi.py::CGIHandlerTests::test_server failing); demo.py exits 1 with the patch.
Only confirmed changes are kept; meta.json records what was run.
usage: import_mut.py <pid> [<pid> ...]
"""
import json
import os
import re
import shutil
import subprocess
import sys
import tempfile

ROOT = os.path.dirname(os.path.dirname(os.path.abspath(__file__)))


def sh(cmd, cwd=None, env=None, timeout=1800):
    e = dict(os.environ)
    e["PYTHONDONTWRITEBYTECODE"] = "1"
    if env:
        e.update(env)
    p = subprocess.run(cmd, cwd=cwd, env=e, stdout=subprocess.PIPE, stderr=subprocess.STDOUT, text=True, timeout=timeout)
    return p.returncode, p.stdout


def confirm(pid, x, src):
    tmp = tempfile.mkdtemp(prefix="jrv-imp-")
    wt = os.path.join(tmp, "repo")
    log = {}
    try:
        rc, out = sh(["git", "-C", "/repo", "worktree", "add", "--detach", wt, "HEAD"])
        if rc:
            return False, {"error": out[-300:]}
        env = {"PYTHONPATH": wt}
        rc0, out0 = sh(["/venv/bin/python", os.path.join(src, "demo.py")], cwd=tmp, env=env, timeout=300)
        log["demo_clean_exit"] = rc0
        rc, out = sh(["git", "-C", wt, "apply", os.path.join(src, "patch.diff")])
        if rc:
            return False, {"error": "patch does not apply: " + out[-300:]}
        rc1, out1 = sh(["/venv/bin/python", os.path.join(src, "demo.py")], cwd=tmp, env=env, timeout=300)
        log["demo_patched_exit"] = rc1
        log["demo_patched_output"] = out1[-600:]
        rct, outt = sh(["/venv/bin/python", "-m", "pytest", "-q", "-p", "no:cacheprovider", "--timeout=900"], cwd=wt, env=env, timeout=1800)
        tail = outt.strip().splitlines()[-1] if outt.strip() else ""
        log["tests"] = tail
        failed = re.findall(r"^FAILED (\S+)", outt, re.M)
        log["tests_failed"] = failed
        m = re.search(r"(\d+) passed", tail)
        ok_tests = bool(m) and int(m.group(1)) == 62 and failed == ["tests/test_cgi.py::CGIHandlerTests::test_server"]
        ok = rc0 == 0 and rc1 == 1 and ok_tests
        return ok, log
    finally:
        sh(["git", "-C", "/repo", "worktree", "remove", "--force", wt])
        shutil.rmtree(tmp, ignore_errors=True)


def main(argv):
    for pid in argv:
        bases = [b for b in ("/tmp/mut_%s/out" % pid, "/tmp/mut2_%s/out" % pid, "/tmp/mut4_%s/out" % pid, "/tmp/mut5_%s/out" % pid, "/tmp/mut6_%s/out" % pid, "/tmp/mut7_%s/out" % pid) if os.path.isdir(b)]
        if not bases:
            print(pid, "no delivery")
            continue
        for base, x in [(b, x) for b in bases for x in sorted(os.listdir(b))]:
            if os.path.isdir(os.path.join(ROOT, "seeded", "mut-%s-%s" % (pid, x))):
                continue
            src = os.path.join(base, x)
            if not os.path.isfile(os.path.join(src, "patch.diff")):
                continue
            ok, log = confirm(pid, x, src)
            print(pid, x, "CONFIRMED" if ok else "REJECTED", json.dumps(log)[:400])
            if not ok:
                continue
            dst = os.path.join(ROOT, "seeded", "mut-%s-%s" % (pid, x))
            os.makedirs(dst, exist_ok=True)
            shutil.copy(os.path.join(src, "patch.diff"), dst)
            shutil.copy(os.path.join(src, "demo.py"), dst)
            meta = {}
            try:
                meta = json.load(open(os.path.join(src, "meta.json")))
            except Exception:
                pass
            meta["properties"] = [pid]
            meta["origin"] = "independent sub-agent given only the property text and a scratch worktree (nothing from /verif)"
            meta["confirmed"] = {"what_was_run": "scratch worktree of /repo HEAD: demo.py clean (exit %s), git apply patch.diff, demo.py patched (exit %s), full pinned pytest suite (%s)"
                                 % (log.get("demo_clean_exit"), log.get("demo_patched_exit"), log.get("tests")),
                                 "demo_output_with_patch": log.get("demo_patched_output", "")[-300:]}
            json.dump(meta, open(os.path.join(dst, "meta.json"), "w"), indent=1)


if __name__ == "__main__":
    main(sys.argv[1:])
