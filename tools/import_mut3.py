#!/usr/bin/env python3
"""Imports the third round of independent seeded changes (one agent per glue file, each change names the property it
breaks in meta.json): /tmp/mut3_<tag>/out/<n>/ -> seeded/glue-<tag>-<n>/ after the same confirmation as import_mut.py.
usage: import_mut3.py <tag> ..."""
import json, os, shutil, sys
sys.path.insert(0, os.path.dirname(os.path.abspath(__file__)))
import import_mut as im


def main(tags):
    for tag in tags:
        base = "/tmp/mut3_%s/out" % tag
        for n in sorted(os.listdir(base)):
            src = os.path.join(base, n)
            dst = os.path.join(im.ROOT, "seeded", "glue-%s-%s" % (tag.split("_")[0], n))
            if not os.path.isfile(os.path.join(src, "patch.diff")) or os.path.isdir(dst):
                continue
            meta = json.load(open(os.path.join(src, "meta.json")))
            pid = str(meta.get("property", ""))[:3]
            ok, log = im.confirm(pid, n, src)
            print(tag, n, pid, "CONFIRMED" if ok else "REJECTED", json.dumps(log)[:300])
            if not ok:
                continue
            os.makedirs(dst, exist_ok=True)
            shutil.copy(os.path.join(src, "patch.diff"), dst); shutil.copy(os.path.join(src, "demo.py"), dst)
            meta["properties"] = [pid]
            meta["origin"] = "independent sub-agent given the twenty property texts and a scratch worktree, restricted to one glue file (nothing from /verif)"
            meta["confirmed"] = {"what_was_run": "demo clean exit %s, demo patched exit %s, suite: %s" % (log.get("demo_clean_exit"), log.get("demo_patched_exit"), log.get("tests"))}
            json.dump(meta, open(os.path.join(dst, "meta.json"), "w"), indent=1)


if __name__ == "__main__":
    main(sys.argv[1:])
