#!/usr/bin/env python3
"""
Regenerates /verif/MANIFEST.json from the property modules present under harness/props and the
per-property notes below.  Properties without a check module are listed under not_applicable with the
reason "not yet built" (they are claimed as soon as their module exists and passes).
"""
import json
import os

ROOT = os.path.dirname(os.path.dirname(os.path.abspath(__file__)))

COMMON_NOTE = ("Trusted: Lean 4.33 kernel; axioms of each theorem within {propext, Classical.choice, Quot.sound} "
               "(audited on every run, no sorry/native_decide/own axioms); tools/extract.py and the harness; the "
               "hand-written model is tied to /repo by the correspondence of the run (differential testing), not "
               "verified against CPython. ")

NOTES = {
    "C01": ("Theorems: composition client encode -> server dispatch -> client decode returns the callable's value and logs one call, for every JSON value, both versions, every batch. Correspondence: real ServerProxy <-> real servers.",
            "JSON codec laws are hypotheses (tested); TCP/Unix sockets observed, not modelled.", "5/C01"),
    "C02": ("Theorems C02_no_raise / C02_wellformed over every request value and batch length about the dispatcher model; correspondence with _marshaled_dispatch and do_POST.",
            "json backend abstract (every parse outcome quantified); interpreter recursion limits not modelled.", "5/C02"),
    "C03": ("Theorems C03_id_echo / C03_batch_order / C03_empty_body by induction on the batch; correspondence entry by entry.", "", "5/C03"),
    "C04": ("Theorems C04_never_answered / C04_once_inline / enqueue-once with a pool; pooled execution exactly-once from the pool model (C09).",
            "thread interleavings of the notification pool are covered by the C09 pool model and the deterministic scheduler.", "5/C04"),
    "C05": ("Theorems per error class incl. private-segment induction and client ProtocolError composition; extracted Fault code sites.", "", "5/C05"),
    "C06": ("Theorems C06_error_raises, C06_range_int, C06_result_unchanged, C06_multicall … about the check_for_errors model for every reply object; extracted range and raised classes re-proved; differential correspondence through check_for_errors, ServerProxy and MultiCall.",
            "float(str) of the jsonrpc member modelled for plain decimal literals only.", "5/C06"),
    "C07": ("Theorem C07_roundtrip by mutual induction over values for every class environment; correspondence on generated class programs, direct and over RPC.",
            "Python's attribute model (slots, mangling, __dict__) is encoded in the class environment, validated differentially.", "5/C07"),
    "C08": ("Theorems C08_inert, C08_allowed_iff (extracted regex), C08_reject_before_import over the load model's effect log; import audit hook + canary module on the real code.", "", "5/C08"),
    "C09": ("Invariant proofs over the reachable states of the pool LTS (any threads/tasks/steps); lockstep co-simulation of the real ThreadPool under a deterministic scheduler.",
            "partial: preemption finer than a synchronisation operation and real time are outside the model; queue.Queue/threading primitives are modelled.", "5/C09"),
    "C10": ("Invariants running<=max, serving<=max, no-starvation from the exact pending accounting; constructor table; scheduler exploration with gate-dependent workloads.",
            "partial: as C09; liveness under fairness stated via no-stuck-state + measure.", "5/C10"),
    "C11": ("join/stop/restart theorems over the pool LTS; lifecycle histories under the deterministic scheduler with deadlock detection.",
            "partial: as C09.", "5/C11"),
    "C12": ("ServerLife LTS theorems (isolation as corollary of C09/C13, close terminates for every lifecycle history); concurrent real clients and exhaustive lifecycle histories on real sockets with a watchdog.",
            "partial: socketserver/kernel behaviour is an environment model; observed, not proved.", "5/C12"),
    "C13": ("Frame/history-freedom theorems over a heap model of the per-request Config copy; extracted write footprint of the serve path re-proved; histories sequential and concurrent.", "", "5/C13"),
    "C14": ("Theorems giving the exact member set of every message kind for both versions, id choice, rejections and acceptance, loads/dumps round trip for every backend satisfying the codec law; extracted thresholds; exhaustive cross-product correspondence (1.09 M combinations in thorough tier).",
            "uuid4 uniqueness assumed (monitored); JSON codec law is a hypothesis tested against the stdlib backend.", "5/C14"),
    "C15": ("Theorems C15_shape / C15_roundtrip / purity on success and failure by mutual induction with the caller's dict as state; exhaustive small nestings + random.", "", "5/C15"),
    "C16": ("Invariant over the invocation log of the line-granular Future LTS for every interleaving and number of registrars; exhaustive/bounded-preemption schedules of the real FutureResult at source-line granularity.",
            "partial: preemption inside a source line and real time are outside the model.", "5/C16"),
    "C17": ("Theorems on Content-Length = UTF-8 byte length, request target, scheme rejection, chunking-independent reassembly (Lean core's verified UTF-8); all chunkings of short bodies on the real server/client.",
            "partial: gzip and urlparse are parameters with assumed laws.", "5/C17"),
    "C18": ("Theorems C18_recency (fold/assoc-list lemma for every stack depth and name), C18_protected, C18_user_agent, C18_restore (induction on block trees with exceptional exits); extracted readonly list, merge normalisation and try/finally; correspondence on a recording connection and through real ServerProxy calls/notifications/batches.",
            "header names ASCII; str(value) modelled for str/int/bool/None.", "5/C18"),
    "C19": ("Transport LTS theorems (own result or raise; recovery within one call) given the http.client environment model; scripted raw-socket peer over TCP and Unix sockets.",
            "partial: http.client and kernel timing are an environment model.", "5/C19"),
    "C20": ("Theorems C20_handler_everywhere / C20_ignore / C20_names / C20_unsupported_omitted by structural induction for every handler function; generated class shapes x handler tables.", "", "5/C20"),
}

TECHNIQUE = "Lean 4 machine-checked proof about an executable model + extracted facts re-proved + differential correspondence with the real code"


def main():
    props = [json.loads(l) for l in open(os.path.join(ROOT, "properties.jsonl"))]
    have = {f[:-3].upper() for f in os.listdir(os.path.join(ROOT, "harness", "props")) if f.startswith("c") and f.endswith(".py")}
    na_path = os.path.join(ROOT, "tools", "not_applicable.json")
    forced_na = json.load(open(na_path)) if os.path.exists(na_path) else {}
    checks, na = [], []
    for p in props:
        pid = p["id"]
        text, note, ref = NOTES[pid]
        if pid in have and pid not in forced_na:
            checks.append({
                "property_id": pid,
                "quick_cmd": "./check %s --tier quick" % pid,
                "thorough_cmd": "./check %s --tier thorough" % pid,
                "evidence_file": "evidence/%s.json" % pid,
                "replay_cmd_template": "./check %s --replay {path}" % pid,
                "engine": "jrv",
                "level_claimed": {"category": "proof", "text": text, "design_ref": "DESIGN.md section " + ref},
                "level_note": COMMON_NOTE + note,
                "technique": TECHNIQUE,
            })
        else:
            na.append({"property_id": pid, "reason": forced_na.get(pid, "check not yet built in this snapshot (model, theorems and correspondence are work in progress; see DESIGN.md section %s)" % ref)})
    manifest = {
        "version": 1,
        "setup_cmd": "./check --setup",
        "hooks": {
            "guard": "JSONRPCLIB_VERIF",
            "enable": "no hook is needed: checks import /repo's working tree in-process (PYTHONPATH), replace module globals from outside and read private state through name-mangled attributes",
            "baseline_off_cmd": "cd /repo && /venv/bin/python -m pytest -ra -q -p no:cacheprovider --timeout=900 --continue-on-collection-errors",
            "source_commits": [],
            "add_only": True,
        },
        "engines": [{
            "name": "jrv",
            "path": "check",
            "serves_properties": sorted(have - set(forced_na)),
            "kind_free_text": "Lean 4 project lean/JRV (models, property theorems, line-protocol driver) + tools/extract.py (source -> Generated.lean) + Python correspondence harness",
        }],
        "checks": checks,
        "notes": "All checks share ./check <id>; see DESIGN.md. known_findings.json lists repaired defects (fixed: entries) and findings carried.",
        "not_applicable": na,
    }
    with open(os.path.join(ROOT, "MANIFEST.json"), "w") as fh:
        json.dump(manifest, fh, indent=1)
        fh.write("\n")
    print("checks:", [c["property_id"] for c in checks])
    print("not claimed:", [n["property_id"] for n in na])


if __name__ == "__main__":
    main()
