#!/usr/bin/env python3
"""Re-bases seeded/*/patch.diff that no longer apply to /repo HEAD (after a new fix: commit shifted their context):
`git apply --3way` in a scratch worktree, then the patch is rewritten as `git diff HEAD`.  Entries that cannot be
re-based automatically are listed."""
import os, shutil, subprocess, tempfile
ROOT = os.path.dirname(os.path.dirname(os.path.abspath(__file__)))


def sh(cmd, cwd=None):
    p = subprocess.run(cmd, cwd=cwd, stdout=subprocess.PIPE, stderr=subprocess.STDOUT, text=True)
    return p.returncode, p.stdout


def main():
    tmp = tempfile.mkdtemp(prefix="jrv-rebase-"); wt = os.path.join(tmp, "repo")
    sh(["git", "-C", "/repo", "worktree", "add", "--detach", wt, "HEAD"])
    try:
        for n in sorted(os.listdir(os.path.join(ROOT, "seeded"))):
            p = os.path.join(ROOT, "seeded", n, "patch.diff")
            if not os.path.isfile(p):
                continue
            rc, _ = sh(["git", "-C", wt, "apply", "--check", p])
            if rc == 0:
                continue
            rc, out = sh(["git", "-C", wt, "apply", "--3way", p])
            rc2, diff = sh(["git", "-C", wt, "diff", "HEAD"])
            if rc == 0 and "<<<<<<<" not in diff and diff.strip():
                open(p, "w").write(diff)
                print("rebased", n)
            else:
                print("CANNOT rebase", n, out.strip().splitlines()[-1:] )
            sh(["git", "-C", wt, "reset", "--hard", "-q", "HEAD"])
    finally:
        sh(["git", "-C", "/repo", "worktree", "remove", "--force", wt]); shutil.rmtree(tmp, ignore_errors=True)


if __name__ == "__main__":
    main()
