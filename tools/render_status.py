#!/usr/bin/env python3
"""Rewrites the block between <!-- SEEDED-TABLE --> markers in DESIGN.md from seeded/*/meta.json and seeded/results.json."""
import json
import os

ROOT = os.path.dirname(os.path.dirname(os.path.abspath(__file__)))


def main():
    res = {}
    try:
        res = {r["name"]: r for r in json.load(open(os.path.join(ROOT, "seeded", "results.json")))}
    except Exception:
        pass
    rows = ["| seeded change | breaks | what it needs to manifest | check outcome (quick tier) |", "|---|---|---|---|"]
    for name in sorted(os.listdir(os.path.join(ROOT, "seeded"))):
        mp = os.path.join(ROOT, "seeded", name, "meta.json")
        if not os.path.isfile(mp):
            continue
        m = json.load(open(mp))
        props = m.get("properties", [])
        needs = str(m.get("needs", "") or m.get("note", "")).replace("|", "/").replace("\n", " ")[:230]
        outs = []
        for pid in props:
            r = (res.get(name, {}).get("results") or {}).get(pid)
            if r is None:
                outs.append("%s: not run yet" % pid)
            else:
                d = str(r.get("detail", "")).replace("|", "/").replace("\n", " ")[:140]
                outs.append("%s: **%s**%s" % (pid, r["outcome"], (" — " + d) if d and r["outcome"].startswith("caught") else ""))
        rows.append("| `%s` | %s | %s | %s |" % (name, ", ".join(props), needs, "; ".join(outs)))
    block = "<!-- SEEDED-TABLE -->\n" + "\n".join(rows) + "\n<!-- /SEEDED-TABLE -->"
    p = os.path.join(ROOT, "DESIGN.md")
    s = open(p).read()
    if "<!-- SEEDED-TABLE -->" in s:
        a = s.index("<!-- SEEDED-TABLE -->")
        b = s.index("<!-- /SEEDED-TABLE -->") + len("<!-- /SEEDED-TABLE -->")
        s = s[:a] + block + s[b:]
    else:
        s += "\n" + block + "\n"
    open(p, "w").write(s)
    print("rows:", len(rows) - 2)


if __name__ == "__main__":
    main()
