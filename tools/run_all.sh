#!/bin/sh
# Runs every registered quick (or thorough: $1) check on /repo, four at a time, and prints one line per property.
cd "$(dirname "$0")/.." || exit 2
TIER="${1:-quick}"
./check --setup >/dev/null 2>&1 || { echo "setup failed"; exit 2; }
ls harness/props/c*.py | sed 's/.*\/c\([0-9]*\)\.py/C\1/' | xargs -P 4 -I{} sh -c './check {} --tier '"$TIER"' 2>/dev/null | tail -1'
