#!/usr/bin/env python3
"""
Runs the registered checks against every seeded change under /verif/seeded/<id>/patch.diff.

Each patch is applied to a scratch worktree of /repo (never to /repo itself), the quick check of the property it
breaks is run with VERIF_REPO pointing at the worktree, and the outcome is recorded in seeded/results.json:
    caught        the check printed a VIOLATION line with a replay that shows a failing input on the real code
    caught-tie    VIOLATION ... no-failing-input-found (tie broken, search found nothing)
    missed        exit 0
    infra         exit 2 / crash
usage: run_seeded.py [--only <substring>] [--tier quick|thorough] [--jobs N]
"""
import argparse
import concurrent.futures
import json
import os
import shutil
import subprocess
import tempfile

ROOT = os.path.dirname(os.path.dirname(os.path.abspath(__file__)))


def sh(cmd, cwd=None, env=None, timeout=3600):
    e = dict(os.environ)
    if env:
        e.update(env)
    p = subprocess.run(cmd, cwd=cwd, env=e, stdout=subprocess.PIPE, stderr=subprocess.STDOUT, text=True, timeout=timeout)
    return p.returncode, p.stdout


def one(name, tier):
    d = os.path.join(ROOT, "seeded", name)
    meta = {}
    try:
        meta = json.load(open(os.path.join(d, "meta.json")))
    except OSError:
        pass
    props = meta.get("properties") or ([meta["property"]] if "property" in meta else [])
    tmp = tempfile.mkdtemp(prefix="jrv-seed-")
    wt = os.path.join(tmp, "repo")
    # a private copy of the verification tree (with its build output): Generated.lean depends on the repository checked
    vroot = os.path.join(tmp, "verif")
    sh(["rsync", "-a", "--exclude", ".git", "--exclude", "seeded", "--exclude", "replays", ROOT + "/", vroot + "/"])
    os.makedirs(os.path.join(vroot, "replays"), exist_ok=True)
    res = {"name": name, "properties": props, "results": {}}
    try:
        rc, out = sh(["git", "-C", "/repo", "worktree", "add", "--detach", wt, "HEAD"])
        if rc != 0:
            res["error"] = out[-300:]
            return res
        rc, out = sh(["git", "-C", wt, "apply", os.path.join(d, "patch.diff")])
        if rc != 0:
            res["error"] = "patch does not apply: " + out[-300:]
            return res
        for pid in props:
            # each check gets its own copy of the verif tree?  no: Generated.lean is shared -> serialise per process
            rc, out = sh([os.path.join(vroot, "check"), pid, "--tier", tier], cwd=vroot,
                         env={"VERIF_REPO": wt, "VERIF_EVIDENCE_DIR": os.path.join(tmp, "evidence")}, timeout=3600)
            line = [ln for ln in out.splitlines() if ln.startswith("VIOLATION")]
            if rc == 1 and line:
                kind = "caught-tie" if line[0].endswith("no-failing-input-found") else "caught"
                detail = ""
                try:
                    rp = line[0].split("replay=")[1].split()[0]
                    pl = json.load(open(os.path.join(vroot, rp)))
                    detail = str(pl.get("detail") or pl.get("broken_obligations"))[:300]
                except Exception:
                    pass
                if meta.get("expect") == "quiet":
                    kind = "FALSE-ALARM(" + kind + ")"
                res["results"][pid] = {"outcome": kind, "detail": detail}
            elif rc == 0:
                res["results"][pid] = {"outcome": "quiet (as expected: harmless)" if meta.get("expect") == "quiet" else "missed"}
            else:
                res["results"][pid] = {"outcome": "infra", "detail": out[-300:]}
    finally:
        sh(["git", "-C", "/repo", "worktree", "remove", "--force", wt])
        shutil.rmtree(tmp, ignore_errors=True)
    return res


def main():
    ap = argparse.ArgumentParser()
    ap.add_argument("--only", default="")
    ap.add_argument("--tier", default="quick")
    ap.add_argument("--jobs", type=int, default=5)
    a = ap.parse_args()
    names = sorted(n for n in os.listdir(os.path.join(ROOT, "seeded")) if os.path.isfile(os.path.join(ROOT, "seeded", n, "patch.diff")))
    names = [n for n in names if a.only in n]
    results = []
    with concurrent.futures.ThreadPoolExecutor(max_workers=a.jobs) as ex:
        for n, r in zip(names, ex.map(lambda n: one(n, a.tier), names)):
            results.append(r)
            print(n, json.dumps(r.get("results") or r.get("error")), flush=True)
    path = os.path.join(ROOT, "seeded", "results.json")
    old = {}
    try:
        old = {r["name"]: r for r in json.load(open(path))}
    except Exception:
        pass
    for r in results:
        old[r["name"]] = r
    json.dump(sorted(old.values(), key=lambda r: r["name"]), open(path, "w"), indent=1)


if __name__ == "__main__":
    main()
